package main

import (
	"crypto/sha256"
	"encoding/hex"
	"encoding/json"

	verifrt "github.com/db47h/decimal/verifrt"
)

// A Scenario is the replay file: it fully determines one simulated execution.
// seed -> Scenario is done by the generators (gen*.go); Scenario -> execution
// consults no PRNG and no clock.
type Scenario struct {
	Property string            `json:"property"`
	World    string            `json:"world"` // "c18", "hist", "ctx", "gob", "parse"
	Seed     uint64            `json:"seed"`
	Tier     string            `json:"tier,omitempty"`
	Knobs    [4]int            `json:"knobs"` // karatsuba, basicSqr, karatsubaSqr, divRecursive; 0 = shipped value
	Pool     verifrt.PoolCfg   `json:"pool"`
	Vars     []VarSpec         `json:"vars"`
	Tasks    []TaskSpec        `json:"tasks"`
	Preempt  []verifrt.Preempt `json:"preempt,omitempty"`
	Faults   []Fault           `json:"faults,omitempty"`
	Ctx      *CtxSpec          `json:"ctx,omitempty"`
	Bytes    *BytesSpec        `json:"bytes,omitempty"`
	Start    int               `json:"start,omitempty"`
	// Far: the scenario is about sums of operands that lie far apart; the cost
	// guard lets exponent gaps up to 150000 digits through for it.
	Far bool `json:"far,omitempty"`
	// Expect is filled in when a violation was found (for replay comparison).
	Expect *ViolationRec `json:"expect,omitempty"`
	Note   string        `json:"note,omitempty"`
}

// VarSpec describes the initial state of one Decimal variable.
type VarSpec struct {
	Shared bool     `json:"shared,omitempty"`
	Owner  int      `json:"owner,omitempty"` // task that may write it (ignored if Shared)
	Form   int      `json:"form"`            // 0 zero, 1 finite, 2 inf
	Neg    bool     `json:"neg,omitempty"`
	Words  []uint64 `json:"words,omitempty"` // little-endian base-10^19 words
	Exp    int32    `json:"exp,omitempty"`
	Prec   uint32   `json:"prec"`
	Mode   uint8    `json:"mode,omitempty"`
	// Dirty > 0: the mantissa buffer is replaced by one with this many words of
	// capacity, the spare part filled with stale (legal) words.
	Dirty   int `json:"dirty,omitempty"`
	Pattern int `json:"pattern,omitempty"`
}

// TaskSpec is the operation list of one simulated caller goroutine.
type TaskSpec struct {
	Ops []Op `json:"ops"`
}

// Op is one public-API call.
type Op struct {
	ID   int      `json:"id"`
	Name string   `json:"op"`
	Z    int      `json:"z"`           // receiver variable, -1 if none
	A    []int    `json:"a,omitempty"` // operand variables
	I    int64    `json:"i,omitempty"`
	U    uint64   `json:"u,omitempty"`
	FB   uint64   `json:"fb,omitempty"` // float64 bits
	S    string   `json:"s,omitempty"`
	B    []byte   `json:"b,omitempty"`
	M    int      `json:"m,omitempty"` // rounding mode / base / misc small int
	P    int      `json:"p,omitempty"` // precision argument
	W    []uint64 `json:"w,omitempty"`
}

// Fault is a non-pool, non-preemption fault: an injected panic.
type Fault struct {
	Kind string `json:"kind"` // "panic_error", "panic_string", "panic_runtime"
	Task int    `json:"task"`
	Op   int    `json:"op"` // op id
	K    int    `json:"k"`  // k-th yield inside the op
}

// CtxSpec is the initial state of the context.Context of the C19 world.
type CtxSpec struct {
	Prec uint  `json:"prec"`
	Mode uint8 `json:"mode"`
}

// BytesSpec is used by the byte-level worlds (C17, C12).
type BytesSpec struct {
	Payload  []byte      `json:"payload,omitempty"`
	Text     string      `json:"text,omitempty"`
	Base     int         `json:"base,omitempty"`
	Entry    string      `json:"entry,omitempty"`
	Mut      []ByteMut   `json:"mut,omitempty"`
	Read     []ReadFault `json:"read,omitempty"`
	Chunk    int         `json:"chunk,omitempty"`
	RecvPrec uint32      `json:"recv_prec,omitempty"`
	RecvMode uint8       `json:"recv_mode,omitempty"`
}

// ByteMut is one corruption of a payload.
type ByteMut struct {
	Kind string `json:"kind"` // trunc, flip, set, word, append, dup, drop
	At   int    `json:"at,omitempty"`
	Val  uint64 `json:"val,omitempty"`
	N    int    `json:"n,omitempty"`
}

// ReadFault is one fault of the simulated stream.
type ReadFault struct {
	Kind string `json:"kind"` // eof, err, err_data, zero, utf8
	At   int    `json:"at"`
}

// ViolationRec is the record of one oracle alarm.
type ViolationRec struct {
	Property string `json:"property"`
	Class    string `json:"class"` // stable class used by shrinking and known-findings matching
	Oracle   string `json:"oracle"`
	OpName   string `json:"op,omitempty"`
	Task     int    `json:"task"`
	OpID     int    `json:"op_id"`
	Site     string `json:"site,omitempty"`
	Msg      string `json:"msg"`
	Sig      string `json:"sig,omitempty"` // structural signature for known-findings
}

func (s *Scenario) Clone() *Scenario {
	b, _ := json.Marshal(s)
	var c Scenario
	_ = json.Unmarshal(b, &c)
	return &c
}

// Digest identifies a scenario (without seed/expect/note).
func (s *Scenario) Digest() string {
	c := *s
	c.Seed = 0
	c.Expect = nil
	c.Note = ""
	b, _ := json.Marshal(&c)
	h := sha256.Sum256(b)
	return hex.EncodeToString(h[:8])
}

// Command worker is the simulation worker: it generates scenarios from seeds,
// executes them against the instrumented library, applies the oracles, shrinks
// failures and writes replay files. One OS process per worker; the orchestrator
// (cmd/vcheck) merges the summaries.
package main

import (
	"encoding/json"
	"flag"
	"fmt"
	"os"
	"path/filepath"
	"runtime"
	"runtime/debug"
	"time"

	"github.com/db47h/decimal"
	verifrt "github.com/db47h/decimal/verifrt"
)

type siteInfo struct {
	ID   int    `json:"id"`
	File string `json:"file"`
	Line int    `json:"line"`
	Func string `json:"func"`
}

var siteTable = map[int]siteInfo{}

// maxKeys bounds the per-worker set used to count distinct cases (memory).
const maxKeys = 3000000

type worldDef struct {
	gen func(seed uint64, tier string) (*Scenario, *Outcome) // scenario + outcome of preparation (may already violate)
	run func(sc *Scenario) *Outcome
}

var worlds = map[string]worldDef{}

func init() {
	worlds["C18"] = worldDef{
		gen: func(seed uint64, tier string) (*Scenario, *Outcome) {
			sc := genC18(seed, tier)
			out := prepareC18(sc)
			return sc, out
		},
		run: runC18,
	}
	worlds["C17"] = worldDef{
		gen: func(seed uint64, tier string) (*Scenario, *Outcome) { return genGob(seed, tier), nil },
		run: runGob,
	}
	worlds["C12"] = worldDef{
		gen: func(seed uint64, tier string) (*Scenario, *Outcome) { return genParse(seed, tier), nil },
		run: runParse,
	}
	worlds["C19"] = worldDef{
		gen: func(seed uint64, tier string) (*Scenario, *Outcome) {
			sc := genCtx(seed, tier)
			out := prepareCtx(sc)
			return sc, out
		},
		run: runHist,
	}
	for _, p := range []string{"C04", "C08", "C09", "C10"} {
		p := p
		worlds[p] = worldDef{
			gen: func(seed uint64, tier string) (*Scenario, *Outcome) {
				if p == "C04" && seed&0xffffff < 3 {
					return genC04Sweep(seed), nil
				}
				return genHist(p, seed, tier), nil
			},
			run: runHist,
		}
	}
}

// ViolationReport is one (shrunk) violation found by a worker.
type ViolationReport struct {
	Rec      *ViolationRec `json:"rec"`
	Replay   string        `json:"replay"`
	Seed     uint64        `json:"seed"`
	Known    string        `json:"known,omitempty"`
	ShrunkIn int           `json:"shrink_evals"`
	Seed0    uint64        `json:"seed0"` // first seed this worker executed (sequence replay)
	Stride   uint64        `json:"stride"`
	Tier     string        `json:"tier"`
	Orig     *ViolationRec `json:"orig,omitempty"`
}

// Summary is what a worker reports.
type Summary struct {
	Property   string                 `json:"property"`
	Worker     int                    `json:"worker"`
	SeedFirst  uint64                 `json:"seed_first"`
	Runs       int                    `json:"runs"`
	Nontrivial int                    `json:"nontrivial"`
	Scenarios  int                    `json:"scenarios"`
	Keys       []uint64               `json:"keys"`
	KeyCount   int                    `json:"key_count"`
	Schedules  []uint64               `json:"schedules"` // distinct schedule signatures
	Steps      uint64                 `json:"steps"`     // logical steps (yields)
	Ops        int                    `json:"ops"`
	Counters   map[string]int         `json:"counters"`
	SiteHits   []uint32               `json:"site_hits,omitempty"`
	SitePre    []uint32               `json:"site_preempted,omitempty"`
	Samples    []json.RawMessage      `json:"samples"`
	Violations []ViolationReport      `json:"violations"`
	KnownSeen  map[string]int         `json:"known_seen"`
	Infra      []string               `json:"infra"`
	WallS      float64                `json:"wall_s"`
	TraceLog   []string               `json:"trace_log,omitempty"`
	Extra      map[string]interface{} `json:"extra,omitempty"`
}

func addCounters(c map[string]int, rep *verifrt.Report) {
	if rep == nil {
		return
	}
	p := rep.Pool
	c["yields"] += int(rep.Clock)
	c["preemptions_fired"] += rep.Switches
	c["preempt_in_pool_window"] += rep.InWindow
	c["preempt_right_after_put"] += rep.AfterPut
	c["monitor_evals"] += int(rep.MonitorEval)
	c["pool_get"] += p.Gets
	c["pool_put"] += p.Puts
	c["pool_reuse"] += p.Reused
	c["pool_get_nil"] += p.Nil
	c["fault_pool_empty"] += p.Emptied
	c["fault_pool_poison_put"] += p.Poisoned
	c["fault_pool_garbage_get"] += p.Garbage
	c["fault_pool_stale_pick"] += p.StalePick
	c["pool_cross_task_reuse"] += p.CrossTask
	c["pool_held_across_switch"] += p.HeldAcrossSwitch
	c["pool_buffers_verified"] += p.Verified
	c["pool_words_poisoned"] += p.WordsPoisoned
	for _, n := range rep.PanicsFired {
		c["fault_"+n]++
	}
}

func main() {
	prop := flag.String("p", "", "property id")
	tier := flag.String("tier", "quick", "quick|thorough")
	seed0 := flag.Uint64("seed0", 1, "first scenario seed")
	runs := flag.Int("runs", 100, "number of scenarios")
	stride := flag.Uint64("stride", 1, "seed stride")
	budget := flag.Duration("budget", 0, "wall-clock budget (0 = none)")
	worker := flag.Int("worker", 0, "worker index")
	out := flag.String("out", "", "summary output file")
	sites := flag.String("sites", "", "site table (verif_sites.json)")
	replay := flag.String("replay", "", "replay a scenario file")
	replayDir := flag.String("replaydir", "", "where replay files are written")
	known := flag.String("known", "", "known_findings.json")
	traceLog := flag.Bool("tracelog", false, "record per-run trace hashes (determinism self-test)")
	maxViol := flag.Int("maxviol", 3, "stop after this many distinct violations")
	shrinkLim := flag.Duration("shrink", 60*time.Second, "time limit for minimising one violation")
	stopSeed := flag.Uint64("stopseed", 0, "sequence replay: run seeds seed0..stopseed in this process and report only what the last one does")
	stopClass := flag.String("stopclass", "", "sequence replay: expected violation class")
	dump := flag.Bool("dump", false, "debug: print per-scenario cost")
	dumpSeed := flag.Uint64("dumpseed", 0, "debug: run one seed, print the scenario and the yields per op")
	flag.Parse()
	debug.SetGCPercent(200)
	runtime.GOMAXPROCS(2)

	if *sites != "" {
		var info struct {
			Sites []siteInfo `json:"sites"`
		}
		if b, err := os.ReadFile(*sites); err == nil && json.Unmarshal(b, &info) == nil {
			for _, s := range info.Sites {
				siteTable[s.ID] = s
			}
		}
	}
	loadKnown(*known)

	if *replay != "" {
		os.Exit(doReplay(*replay))
	}

	wd, ok := worlds[*prop]
	if !ok {
		fmt.Fprintln(os.Stderr, "worker: unknown property", *prop)
		os.Exit(2)
	}
	if *dumpSeed != 0 {
		sc, o := wd.gen(*dumpSeed, *tier)
		if o == nil || (o.Violation == nil && o.Infra == "") {
			o = wd.run(sc)
		}
		b, _ := json.Marshal(abbreviate(sc))
		fmt.Println(string(b))
		for t := range o.Results {
			for i, r := range o.Results[t] {
				fmt.Printf("task %d op %d %s yields=%d %s\n", t, i, sc.Tasks[t].Ops[i].Name, r.Yields, r.Short())
			}
		}
		fmt.Println("infra:", o.Infra, "violation:", o.Violation != nil, "steps:", o.Steps)
		return
	}
	start := time.Now()
	sum := &Summary{Property: *prop, Worker: *worker, SeedFirst: *seed0, Counters: map[string]int{}, KnownSeen: map[string]int{}}
	scheds := map[uint64]bool{}
	keys := map[uint64]struct{}{}
	sigs := map[string]bool{}
	for i := 0; i < *runs; i++ {
		if *budget > 0 && time.Since(start) > *budget {
			break
		}
		seed := *seed0 + uint64(i)**stride
		// In every block of 64 consecutive seeds the first 33 scenarios start cold
		// (package-level state of the library as after initialisation: first-use
		// windows of lazily built tables open again), the other 31 inherit whatever
		// the scenarios before them left in the process (caches fill up over a
		// stretch of 32 scenarios: entries computed for one call are met by later,
		// different calls). A violation that needs the inherited state is replayed
		// as a seed sequence.
		coldStart = seed%64 <= 32
		resetLibrary()
		sc, o := wd.gen(seed, *tier)
		if o == nil || (o.Violation == nil && o.Infra == "") {
			prep := o
			o = safeRun(wd.run, sc)
			if prep != nil {
				o.Steps += prep.Steps
			}
		}
		if *stopSeed != 0 {
			if seed < *stopSeed {
				continue
			}
			// last scenario of the sequence: report and stop
			if o.Infra != "" {
				fmt.Println("INFRA", o.Infra)
				os.Exit(2)
			}
			if o.Violation == nil {
				fmt.Println("NOT-REPRODUCED: the sequence ran clean")
				os.Exit(0)
			}
			rb, _ := json.Marshal(o.Violation)
			if *stopClass != "" && o.Violation.Class != *stopClass {
				fmt.Printf("DIFFERENT %s\n", rb)
				os.Exit(3)
			}
			fmt.Printf("REPRODUCED (after %d preceding scenarios in the same process) %s\n%s\n", i, rb, o.Violation.Msg)
			os.Exit(1)
		}
		if *dump {
			fmt.Fprintf(os.Stderr, "seed %d steps %d t=%.2fs infra=%q viol=%v\n", seed, o.Steps, time.Since(start).Seconds(), o.Infra, o.Violation != nil)
		}
		if o.Evals > 0 {
			sum.Runs += o.Evals
		} else {
			sum.Runs++
		}
		sum.Scenarios++
		sum.Steps += o.Steps
		sum.Ops += o.Ops
		addCounters(sum.Counters, o.Rep)
		sum.Counters["nan_panics"] += o.NaNPanics
		for k, v := range o.Counters {
			sum.Counters[k] += v
		}
		if *traceLog {
			sum.TraceLog = append(sum.TraceLog, fmt.Sprintf("%d %016x %d %s", seed, o.Trace, o.Steps, sc.Digest()))
		}
		if o.Infra != "" {
			sum.Infra = append(sum.Infra, fmt.Sprintf("seed %d: %s", seed, o.Infra))
			if len(sum.Infra) > 5 {
				break
			}
			continue
		}
		if o.Nontrivial {
			sum.Nontrivial++
			// the set of distinct cases is kept up to a memory bound; beyond it the
			// count is a lower bound (reported as such)
			if len(keys) < maxKeys {
				if len(o.Keys) > 0 {
					for _, k := range o.Keys {
						keys[k] = struct{}{}
					}
				} else {
					keys[digest64(sc.Digest())] = struct{}{}
				}
			} else {
				sum.Counters["cases_beyond_distinctness_bound"] += len(o.Keys) + 1
			}
		}
		if o.Rep != nil && o.Rep.Switches > 0 && !scheds[o.Rep.Sched] {
			scheds[o.Rep.Sched] = true
			sum.Schedules = append(sum.Schedules, o.Rep.Sched)
		}
		if len(sum.Samples) < 3 && o.Nontrivial {
			b, _ := json.Marshal(abbreviate(sc))
			sum.Samples = append(sum.Samples, b)
		}
		if o.Violation != nil {
			if k := matchKnown(o.Violation); k != "" {
				sum.KnownSeen[k]++
				continue
			}
			if sigs[o.Violation.Sig] {
				sum.Counters["violations_duplicate_sig"]++
				continue
			}
			sigs[o.Violation.Sig] = true
			orig := o.Violation
			if o.Repro != nil {
				sc = o.Repro
			}
			sc.Expect = o.Violation
			// candidates are judged from a cold start, like the fresh process that
			// will replay the result; a violation that needs the history of this
			// process is not minimised (it is replayed as a seed sequence)
			cs := coldStart
			coldStart = true
			small, evals := shrink(sc, func(c *Scenario) *Outcome { return safeRun(wd.run, c) }, *shrinkLim)
			coldStart = cs
			path := filepath.Join(*replayDir, fmt.Sprintf("%s-%d.json", *prop, seed))
			writeScenario(path, small)
			sum.Violations = append(sum.Violations, ViolationReport{Rec: small.Expect, Replay: path, Seed: seed, ShrunkIn: evals, Orig: orig, Seed0: *seed0, Stride: *stride, Tier: *tier})
			if len(sum.Violations) >= *maxViol {
				break
			}
		}
	}
	sum.Counters["scratch_handouts_checked"] = verifrt.ScratchGets
	sum.Counters["simulated_lock_acquisitions"] = verifrt.LockAcquires
	sum.Counters["atomic_statements_executed"] = int(verifrt.AtomicHits)
	sum.Counters["atomic_operand_windows_executed"] = int(verifrt.SyncArgs)
	sum.Counters["library_goroutines_run_unsimulated"] = int(verifrt.ForeignStarted)
	sum.KeyCount = len(keys)
	if len(keys) <= 400000 {
		for k := range keys {
			sum.Keys = append(sum.Keys, k)
		}
	}
	sum.SiteHits = verifrt.SiteHits
	sum.SitePre = verifrt.SitePreempted
	sum.WallS = time.Since(start).Seconds()
	b, _ := json.Marshal(sum)
	if *out == "" {
		os.Stdout.Write(b)
	} else if err := os.WriteFile(*out, b, 0o644); err != nil {
		fmt.Fprintln(os.Stderr, "worker:", err)
		os.Exit(2)
	}
}

// safeRun executes a scenario; a panic that escapes the world's own recovery
// (library code called while building variables or preparing receivers -
// valid arguments all of them) is reported as a violation of the "nothing but
// ErrNaN panics / no malformed state" kind rather than crashing the worker.
func safeRun(run func(*Scenario) *Outcome, sc *Scenario) (o *Outcome) {
	resetLibrary()
	defer func() {
		if r := recover(); r != nil {
			if verifrt.Active() {
				panic(r) // inside a simulated run: not recoverable here
			}
			msg := fmt.Sprint(r)
			if len(msg) > 300 {
				msg = msg[:300]
			}
			o = &Outcome{Counters: map[string]int{}, Violation: &ViolationRec{Property: sc.Property, Class: "panic-outside-operation", Oracle: "harness",
				Msg: "the library panicked while the harness prepared the scenario (building a variable or receiver through the public API with valid arguments): " + msg,
				Sig: "panic-outside-operation"}}
		}
	}()
	return run(sc)
}

func writeScenario(path string, sc *Scenario) {
	b, _ := json.MarshalIndent(sc, "", " ")
	_ = os.MkdirAll(filepath.Dir(path), 0o755)
	if err := os.WriteFile(path, b, 0o644); err != nil {
		fmt.Fprintln(os.Stderr, "worker: cannot write replay:", err)
	}
}

// doReplay re-executes a scenario file in this (fresh) process. Exit 1 and a
// REPRODUCED line if the recorded violation class shows again, 0 if nothing is
// violated, 3 if a different violation appears.
func doReplay(path string) int {
	b, err := os.ReadFile(path)
	if err != nil {
		fmt.Fprintln(os.Stderr, "replay:", err)
		return 2
	}
	var sc Scenario
	if err := json.Unmarshal(b, &sc); err != nil {
		fmt.Fprintln(os.Stderr, "replay:", err)
		return 2
	}
	wd, ok := worlds[sc.Property]
	if !ok {
		fmt.Fprintln(os.Stderr, "replay: unknown property", sc.Property)
		return 2
	}
	o := safeRun(wd.run, &sc)
	if o.Infra != "" {
		fmt.Println("INFRA", o.Infra)
		return 2
	}
	if o.Violation == nil {
		fmt.Println("NOT-REPRODUCED: scenario ran clean")
		return 0
	}
	rb, _ := json.Marshal(o.Violation)
	if sc.Expect != nil && (o.Violation.Class != sc.Expect.Class || o.Violation.Msg != sc.Expect.Msg) {
		fmt.Printf("DIFFERENT %s\n", rb)
		if o.Violation.Class == sc.Expect.Class {
			return 1
		}
		return 3
	}
	fmt.Printf("REPRODUCED %s\n", rb)
	fmt.Println(o.Violation.Msg)
	return 1
}

// abbreviate returns a copy of sc with long word vectors shortened, for
// evidence samples.
func abbreviate(sc *Scenario) *Scenario {
	c := sc.Clone()
	for i := range c.Vars {
		if len(c.Vars[i].Words) > 4 {
			n := len(c.Vars[i].Words)
			c.Vars[i].Words = append(c.Vars[i].Words[:2:2], c.Vars[i].Words[n-2:]...)
			c.Note += fmt.Sprintf("v%d has %d words (2 lowest and 2 highest shown); ", i, n)
		}
	}
	if len(c.Preempt) > 12 {
		c.Note += fmt.Sprintf("%d preemption points, first 12 shown; ", len(c.Preempt))
		c.Preempt = c.Preempt[:12]
	}
	for t := range c.Tasks {
		for i := range c.Tasks[t].Ops {
			op := &c.Tasks[t].Ops[i]
			if len(op.S) > 80 {
				op.S = op.S[:80] + "…"
			}
			if len(op.B) > 64 {
				op.B = op.B[:64]
			}
			if len(op.W) > 4 {
				op.W = op.W[:4]
			}
		}
	}
	return c
}

func digest64(hexs string) uint64 {
	var v uint64
	fmt.Sscanf(hexs, "%16x", &v)
	return v
}

// resetLibrary puts the library's package-level state back to what it was when
// the package finished initialising: every scenario starts cold (lazily built
// caches and tables, Once-guarded initialisation) and no scenario depends on
// what earlier ones left behind in this process.
var coldStart = true

func resetLibrary() {
	if verifrt.Active() || !coldStart {
		return
	}
	decimal.VerifResetGlobals()
	verifrt.ResetOnce()
}

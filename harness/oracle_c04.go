package main

import (
	"fmt"
	"math"
	"math/big"
	"strings"

	"github.com/db47h/decimal"
)

// ---------------------------------------------------------------------------
// C04: zeros, infinities and NaN cases follow IEEE-754; only ErrNaN ever panics.
//
// The operand-class model below is written from the property statement and
// IEEE 754-2008 §6.1-6.3/§7.2, not from the library's code.

// class of an operand: form (0 zero, 1 finite, 2 inf) and sign.
type cls struct {
	form int
	neg  bool
}

func clsOf(o Obs) cls { return cls{o.Form, o.Neg} }

// expectation for one arithmetic step
type expect struct {
	invalid bool // must panic with ErrNaN
	// when !invalid and known==true the result class is determined by the operand classes alone
	known bool
	res   cls
	// zeroSum: the result, if it is an exact zero, must have this sign
	zeroSumChecked bool
	zeroNeg        bool
	// signKnown: whatever the magnitudes, the result carries this sign bit (rounding,
	// overflow to Inf and underflow to zero all keep the sign of the exact value)
	signKnown bool
	sign      bool
}

// sumClass models x + y for operand classes (y already negated for Sub).
func sumClass(x, y cls, mode decimal.RoundingMode) expect {
	switch {
	case x.form == 2 && y.form == 2:
		if x.neg != y.neg {
			return expect{invalid: true}
		}
		return expect{known: true, res: x}
	case x.form == 2:
		return expect{known: true, res: x}
	case y.form == 2:
		return expect{known: true, res: y}
	case x.form == 0 && y.form == 0:
		// (-0)+(-0) = -0; (+0)+(+0) = +0; opposite signs: +0, or -0 under ToNegativeInf
		if x.neg == y.neg {
			return expect{known: true, res: cls{0, x.neg}}
		}
		return expect{known: true, res: cls{0, mode == decimal.ToNegativeInf}}
	case x.form == 0:
		// 0 + y = y (rounded to the receiver): the sign is that of the non-zero operand
		return expect{signKnown: true, sign: y.neg}
	case y.form == 0:
		return expect{signKnown: true, sign: x.neg}
	}
	// finite + finite: an exactly zero sum of opposite-signed operands
	if x.neg != y.neg {
		return expect{zeroSumChecked: true, zeroNeg: mode == decimal.ToNegativeInf}
	}
	return expect{signKnown: true, sign: x.neg}
}

func mulClass(x, y cls) expect {
	neg := x.neg != y.neg
	switch {
	case (x.form == 0 && y.form == 2) || (x.form == 2 && y.form == 0):
		return expect{invalid: true}
	case x.form == 2 || y.form == 2:
		return expect{known: true, res: cls{2, neg}}
	case x.form == 0 || y.form == 0:
		return expect{known: true, res: cls{0, neg}}
	}
	return expect{}
}

func quoClass(x, y cls) expect {
	neg := x.neg != y.neg
	switch {
	case (x.form == 0 && y.form == 0) || (x.form == 2 && y.form == 2):
		return expect{invalid: true}
	case y.form == 0: // x/±0, x != 0
		return expect{known: true, res: cls{2, neg}}
	case x.form == 2: // Inf/y, y finite
		return expect{known: true, res: cls{2, neg}}
	case y.form == 2: // x/Inf
		return expect{known: true, res: cls{0, neg}}
	case x.form == 0: // 0/y
		return expect{known: true, res: cls{0, neg}}
	}
	return expect{}
}

func fmaClass(x, y, u cls, mode decimal.RoundingMode) expect {
	p := mulClass(x, y)
	if p.invalid {
		return p
	}
	if p.known && p.res.form == 2 {
		// ±Inf + u
		if u.form == 2 && u.neg != p.res.neg {
			return expect{invalid: true}
		}
		return expect{known: true, res: p.res}
	}
	if u.form == 2 {
		return expect{known: true, res: u}
	}
	if p.known && p.res.form == 0 {
		// the product is an exact zero with the XOR sign: x*y + u is the sum ±0 + u
		return sumClass(p.res, u, mode)
	}
	if u.form == 0 {
		// finite product + ±0: the sign is the product's
		return expect{signKnown: true, sign: x.neg != y.neg}
	}
	// finite product + finite u: the value decides, except that an exactly zero
	// sum of opposite-signed terms is +0 (-0 under ToNegativeInf)
	if (x.neg != y.neg) != u.neg {
		return expect{zeroSumChecked: true, zeroNeg: mode == decimal.ToNegativeInf}
	}
	return expect{signKnown: true, sign: u.neg}
}

// cmpMagObs compares the magnitudes of two finite observations.
func cmpMagObs(a, b Obs) int {
	if a.Exp != b.Exp {
		if a.Exp < b.Exp {
			return -1
		}
		return 1
	}
	x, y := a.Digits, b.Digits
	for len(x) < len(y) {
		x += "0"
	}
	for len(y) < len(x) {
		y += "0"
	}
	return strings.Compare(x, y)
}

type oracleC04 struct {
	cnt        map[string]int
	preLatched bool
}

func (o *oracleC04) before(c *stepCtx) {
	o.preLatched = c.w.Ctx != nil && ctxLatched(c.w.Ctx)
}
func (o *oracleC04) monitor() func(task, op int, site uint32) string { return nil }
func (o *oracleC04) counters() map[string]int                        { return o.cnt }

func (o *oracleC04) after(c *stepCtx) *ViolationRec {
	op, res := c.op, c.res
	if res.Skipped {
		return nil
	}
	fail := func(class, f string, a ...interface{}) *ViolationRec {
		return &ViolationRec{Class: class, Oracle: "class-model", Msg: fmt.Sprintf(f, a...) + "\n  " + opDesc(c), Sig: class + ":" + op.Name}
	}
	var ex expect
	modelled := false
	var mode decimal.RoundingMode
	if op.Z >= 0 {
		mode = c.pre[op.Z].Mode
	}
	cl := func(i int) cls { return clsOf(c.pre[op.A[i]]) }
	name := op.Name
	ctxOp := false
	if strings.HasPrefix(name, "c.") && ctxArity[name] > 1 || name == "c.Sqrt" {
		// arithmetic through a Context is the same arithmetic under the context's
		// rounding mode, as long as no error is pending (then it is a no-op) and the
		// receiver is not an operand (then it is rounded first, which may change its class)
		alias := false
		for _, a := range op.A {
			alias = alias || a == op.Z
		}
		if c.w.Ctx != nil && !o.preLatched && !alias && op.Z >= 0 {
			name, ctxOp = name[2:], true
			mode = c.w.Ctx.Mode()
		}
	}
	switch name {
	case "Add":
		ex, modelled = sumClass(cl(0), cl(1), mode), true
	case "Sub":
		y := cl(1)
		y.neg = !y.neg
		ex, modelled = sumClass(cl(0), y, mode), true
	case "Mul":
		ex, modelled = mulClass(cl(0), cl(1)), true
	case "Quo":
		ex, modelled = quoClass(cl(0), cl(1)), true
	case "FMA":
		ex, modelled = fmaClass(cl(0), cl(1), cl(2), mode), true
	case "Sqrt":
		x := cl(0)
		modelled = true
		switch {
		case x.neg && x.form != 0:
			ex = expect{invalid: true}
		case x.form != 1:
			ex = expect{known: true, res: x} // sqrt(±0) = ±0, sqrt(+Inf) = +Inf
		default:
			ex = expect{signKnown: true, sign: false}
		}
	case "SetFloat64":
		modelled = true
		f := math.Float64frombits(op.FB)
		switch {
		case math.IsNaN(f):
			ex = expect{invalid: true}
		case math.IsInf(f, 0):
			ex = expect{known: true, res: cls{2, f < 0}}
		case f == 0:
			ex = expect{known: true, res: cls{0, math.Signbit(f)}}
		}
	}
	if modelled {
		o.cnt["class_model_steps"]++
	}

	// (i) a panic escapes <=> the model says invalid; (ii) its type is ErrNaN
	if res.Panicked {
		if !res.IsNaN {
			return fail("foreign-panic", "operation on valid arguments panicked with %s: %s", res.PanicTyp, res.PanicMsg)
		}
		if !modelled || !ex.invalid {
			return fail("unexpected-errnan", "operation panicked with ErrNaN (%s) although IEEE-754 defines its result", res.PanicMsg)
		}
		o.cnt["invalid_ops_panicked_errnan"]++
		// (iii) the receiver is a valid Decimal afterwards
		if op.Z >= 0 {
			if msg := canonical(c.w.V[op.Z]); msg != "" {
				return fail("invalid-after-errnan", "receiver is not a valid Decimal after the ErrNaN panic: %s", msg)
			}
		}
		return nil
	}
	if ctxOp && ex.invalid {
		return nil // the context records the ErrNaN (C19); the receiver's value is undefined
	}
	if modelled && ex.invalid {
		return fail("missing-errnan", "invalid operation did not panic with ErrNaN")
	}
	if !modelled || op.Z < 0 {
		return nil
	}
	post := c.post[op.Z]
	// (iv) results determined by the operand classes
	if ex.known {
		o.cnt["special_results_checked"]++
		if post.Form != ex.res.form || post.Neg != ex.res.neg {
			return fail("wrong-special-result", "result is %s, IEEE-754 gives %s", post.Value(), Obs{Form: ex.res.form, Neg: ex.res.neg}.Value())
		}
	}
	if ex.signKnown {
		o.cnt["result_signs_checked"]++
		if post.Neg != ex.sign {
			return fail("wrong-result-sign", "result %s has sign bit %v; the exact result has sign bit %v whatever the magnitudes", post.Value(), post.Neg, ex.sign)
		}
	}
	// exact cancellation decided from the operands, not from the reported accuracy
	if ex.zeroSumChecked && (name == "Add" || name == "Sub") {
		a, b := c.pre[op.A[0]], c.pre[op.A[1]]
		if a.Digits == b.Digits && a.Exp == b.Exp {
			o.cnt["constructed_exact_cancellations"]++
			if post.Form != 0 || post.Neg != ex.zeroNeg {
				return fail("wrong-zero-sum-sign", "x + (-x) must be an exact zero with sign bit %v under mode %d, got %s", ex.zeroNeg, mode, post.Value())
			}
		}
	}
	if ex.zeroSumChecked && name == "FMA" {
		// x*y + u with u = -(x*y) exactly: decided with integer arithmetic from the operands
		x, y, u := refFromObs(c.pre[op.A[0]]), refFromObs(c.pre[op.A[1]]), refFromObs(c.pre[op.A[2]])
		if x.form == 1 && y.form == 1 && u.form == 1 && len(c.pre[op.A[0]].Digits)+len(c.pre[op.A[1]].Digits) < 4000 {
			p := new(big.Int).Mul(x.D, y.D)
			pe := x.E + y.E
			// compare p*10^pe with u.D*10^u.E after removing trailing zeros of both
			pd, ud := strings.TrimRight(p.String(), "0"), strings.TrimRight(u.D.String(), "0")
			if pd == ud && pe+int64(len(p.String())-len(pd)) == u.E+int64(len(u.D.String())-len(ud)) {
				o.cnt["constructed_fma_cancellations"]++
				if post.Form != 0 || post.Neg != ex.zeroNeg {
					return fail("wrong-zero-sum-sign", "x*y + (-(x*y)) must be an exact zero with sign bit %v under mode %d, got %s", ex.zeroNeg, mode, post.Value())
				}
			}
		}
	}
	if ex.zeroSumChecked && (name == "Add" || name == "Sub") && post.Form == 0 && post.Acc != decimal.Exact {
		// an inexact zero: the exact difference was not zero but too small to be
		// represented; it keeps the sign of the exact result, i.e. of the operand
		// with the larger magnitude
		a, b := c.pre[op.A[0]], c.pre[op.A[1]]
		bneg := b.Neg
		if name == "Sub" {
			bneg = !bneg
		}
		if m := cmpMagObs(a, b); m != 0 {
			want := a.Neg
			if m < 0 {
				want = bneg
			}
			o.cnt["underflowed_difference_signs_checked"]++
			if post.Neg != want {
				return fail("wrong-result-sign", "the difference underflowed to a zero with sign bit %v; the exact result has sign bit %v", post.Neg, want)
			}
		}
	}
	if ex.zeroSumChecked && post.Form == 0 && post.Acc == decimal.Exact {
		o.cnt["exact_zero_sums_checked"]++
		if post.Neg != ex.zeroNeg {
			return fail("wrong-zero-sum-sign", "exactly zero sum of opposite-signed operands has sign bit %v under mode %d", post.Neg, mode)
		}
	}
	// product / quotient sign is the XOR of the operand signs, whatever the magnitudes
	if name == "Mul" || name == "Quo" {
		want := c.pre[op.A[0]].Neg != c.pre[op.A[1]].Neg
		o.cnt["xor_sign_checks"]++
		if post.Neg != want {
			return fail("wrong-product-sign", "sign bit %v, XOR of operand signs is %v", post.Neg, want)
		}
	}
	return nil
}

// genC04Sweep enumerates the complete operand-class table as one fault-free
// history: {-Inf,-fin,-0,+0,+fin,+Inf}^2 for Add/Sub/Mul/Quo, ^3 for FMA, ^1 for
// Sqrt, under each of the six rounding modes. variant selects the finite
// magnitudes.
func genC04Sweep(seed uint64) *Scenario {
	variant := int(seed & 0xffffff)
	sc := &Scenario{Property: "C04", World: "hist", Seed: seed, Note: "exhaustive operand-class sweep"}
	sc.Pool.Policy = "lifo"
	fin := [][]uint64{{wordBase / 10}, {wordBase - 1, wordBase - 1}, {5, 0, wordBase / 2}}[variant%3]
	exp := []int32{1, 0, -7}[variant%3]
	mk := func(form int, neg bool) VarSpec {
		v := VarSpec{Form: form, Neg: neg, Prec: 40}
		if form == 1 {
			v.Words = fin
			v.Exp = exp
			v.Prec = uint32(len(fin) * wordDigits)
		}
		return v
	}
	sc.Vars = []VarSpec{mk(2, true), mk(1, true), mk(0, true), mk(0, false), mk(1, false), mk(2, false)}
	for m := 0; m < 6; m++ {
		sc.Vars = append(sc.Vars, VarSpec{Form: 0, Prec: uint32(7 + 19*(variant%3)), Mode: uint8(m)})
	}
	id := 0
	var ops []Op
	for m := 0; m < 6; m++ {
		z := 6 + m
		for _, name := range []string{"Add", "Sub", "Mul", "Quo"} {
			for a := 0; a < 6; a++ {
				for b := 0; b < 6; b++ {
					ops = append(ops, Op{ID: id, Name: name, Z: z, A: []int{a, b}})
					id++
				}
			}
		}
		for a := 0; a < 6; a++ {
			ops = append(ops, Op{ID: id, Name: "Sqrt", Z: z, A: []int{a}})
			id++
			for b := 0; b < 6; b++ {
				for c := 0; c < 6; c++ {
					ops = append(ops, Op{ID: id, Name: "FMA", Z: z, A: []int{a, b, c}})
					id++
				}
			}
		}
	}
	sc.Tasks = []TaskSpec{{Ops: ops}}
	return sc
}

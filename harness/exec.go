package main

import (
	"fmt"

	"github.com/db47h/decimal"
	verifrt "github.com/db47h/decimal/verifrt"
)

var shippedKnobs = decimal.VerifKnobs()

func applyKnobs(k [4]int) {
	var v [4]int
	for i := range v {
		v[i] = shippedKnobs[i]
		if k[i] > 0 && shippedKnobs[i] >= 0 {
			v[i] = k[i]
		}
	}
	decimal.VerifSetKnobs(v)
}

// Outcome of executing one scenario.
type Outcome struct {
	Violation *ViolationRec
	Infra     string // watchdog / harness trouble: exit 2, never a violation
	Rep       *verifrt.Report
	RefYields []int      // reference (sequential) yields per task
	Results   [][]Result // concurrent/live results per task per op
	Steps     uint64     // logical steps incl. reference runs
	// counters for evidence
	Ops        int
	NaNPanics  int
	Nontrivial bool
	Trace      uint64
	Counters   map[string]int
	Evals      int       // evaluations performed by this scenario (default 1)
	Keys       []uint64  // keys of the distinct non-trivial cases it covered (default: the scenario digest)
	Repro      *Scenario // minimal scenario reproducing the violation, if different from the executed one
}

func siteStr(id uint32) string {
	if s, ok := siteTable[int(id)]; ok {
		return fmt.Sprintf("%s:%d(%s)", s.File, s.Line, s.Func)
	}
	return fmt.Sprintf("site#%d", id)
}

func opByID(sc *Scenario, task, id int) *Op {
	if task < 0 || task >= len(sc.Tasks) {
		return nil
	}
	for i := range sc.Tasks[task].Ops {
		if sc.Tasks[task].Ops[i].ID == id {
			return &sc.Tasks[task].Ops[i]
		}
	}
	return nil
}

func makePanics(sc *Scenario) []verifrt.PanicFault {
	var out []verifrt.PanicFault
	for _, f := range sc.Faults {
		var fire func()
		switch f.Kind {
		case "panic_error":
			fire = func() { panic(foreignErr{}) }
		case "panic_string":
			fire = func() { panic("injected foreign string panic") }
		case "panic_runtime":
			fire = func() {
				var m map[int]int
				m[0] = 1 // a real runtime.Error
			}
		default:
			continue
		}
		out = append(out, verifrt.PanicFault{Task: f.Task, Op: f.Op, K: f.K, Fire: fire, Name: f.Kind})
	}
	return out
}

// foreignErr is an error value that is not a decimal.ErrNaN.
type foreignErr struct{}

func (foreignErr) Error() string { return "injected foreign error" }

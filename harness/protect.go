package main

import (
	"fmt"
	"runtime/debug"
	"syscall"
	"unsafe"

	"github.com/db47h/decimal"
)

// Write protection of shared operands (C18). The statement-level monitors see
// memory only at statement boundaries; a kernel written in assembly can change
// an operand and restore it without ever crossing one. The mantissa of every
// shared operand is therefore moved into its own mapping, placed so that it ends
// at the end of the last page, and the mapping is made read-only while the tasks
// run: any store to it - transient or not, from Go or from assembly, one word
// past the end included - faults, the runtime turns the fault into a panic
// (debug.SetPanicOnFault) and the harness reports it. Code that only reads its
// operands is not affected.

type protRegion struct {
	mem   []byte
	lo    uintptr
	hi    uintptr
	v     int
	words int
}

var protRegions []protRegion

const pageSize = 4096

// protectShared re-homes and write-protects the mantissas of the shared
// variables of w. The returned function releases the mappings.
func protectShared(sc *Scenario, w *World) func() {
	var regs []protRegion
	for i, v := range w.V {
		if i >= len(sc.Vars) || !sc.Vars[i].Shared {
			continue
		}
		_, c := decimal.VerifMantCap(v)
		if c == 0 {
			continue
		}
		size := c * 8
		n := (size + pageSize - 1) / pageSize * pageSize
		mem, err := syscall.Mmap(-1, 0, n, syscall.PROT_READ|syscall.PROT_WRITE, syscall.MAP_ANON|syscall.MAP_PRIVATE)
		if err != nil {
			continue
		}
		off := n - size
		buf := unsafe.Slice((*uint)(unsafe.Pointer(&mem[off])), c)
		if !decimal.VerifRehome(v, buf) {
			_ = syscall.Munmap(mem)
			continue
		}
		if err := syscall.Mprotect(mem, syscall.PROT_READ); err != nil {
			// cannot protect: leave it readable and writable (nothing is reported)
			regs = append(regs, protRegion{mem: mem})
			continue
		}
		base := uintptr(unsafe.Pointer(&mem[0]))
		regs = append(regs, protRegion{mem: mem, lo: base, hi: base + uintptr(n), v: i, words: c})
	}
	protRegions = regs
	return func() {
		protRegions = nil
		for _, r := range regs {
			_ = syscall.Mprotect(r.mem, syscall.PROT_READ|syscall.PROT_WRITE)
			_ = syscall.Munmap(r.mem)
		}
	}
}

// faultInProtected describes a recovered runtime fault if its address lies in a
// protected operand (or in the page right behind one).
func faultInProtected(r interface{}) string {
	a, ok := r.(interface{ Addr() uintptr })
	if !ok {
		return ""
	}
	addr := a.Addr()
	for _, p := range protRegions {
		if p.hi == 0 {
			continue
		}
		if addr >= p.lo && addr < p.hi {
			return fmt.Sprintf("a store into the mantissa array of shared operand v%d was attempted (write-protected memory, word %d of %d)", p.v, (int(addr-p.lo)-(len(p.mem)-p.words*8))/8, p.words)
		}
		if addr >= p.hi && addr < p.hi+pageSize {
			return fmt.Sprintf("an access %d bytes past the end of the mantissa array of shared operand v%d was attempted", addr-p.hi, p.v)
		}
	}
	return ""
}

// panicOnFault makes memory faults of the calling goroutine recoverable; it
// returns the function that restores the previous setting.
func panicOnFault() func() {
	old := debug.SetPanicOnFault(true)
	return func() { debug.SetPanicOnFault(old) }
}

package main

import (
	"fmt"
	"sort"

	"github.com/db47h/decimal"
	verifrt "github.com/db47h/decimal/verifrt"
)

// ---------------------------------------------------------------------------
// C18 world: k tasks share read-only operands, each writes its own receivers.

var c18Arith = []string{"Add", "Sub", "Mul", "Quo", "FMA", "Sqrt", "Mul", "Quo", "Mul", "Quo"}
var c18Copy = []string{"Set", "Neg", "Abs", "Copy", "SetMantExp", "MantExp", "GobCopy", "TextCopy"}

// operations that read no shared Decimal but share the library's package-level
// tables and the scratch pool with everybody else
var c18Private = []string{"Parse", "SetInt", "SetRat", "SetFloat64", "SetFloat", "UnmarshalText", "Scan", "GobDecode", "GobDecode", "SetUint64"}
var c18Get = []string{"Cmp", "Sign", "IsInt", "MinPrec", "Attrs", "Int", "Int64", "Uint64", "Rat", "Float", "Float32", "Float64",
	"Text", "Append", "Format", "String", "GobEncode", "MarshalText", "MarshalJSON"}

func genC18(seed uint64, tier string) *Scenario {
	r := newRng(seed, 18)
	sc := &Scenario{Property: "C18", World: "c18", Seed: seed, Tier: tier}
	sc.Knobs = r.genKnobs(0.2)
	// size class of this run (swarm): mostly medium so that lowered knobs reach
	// the pooled code paths; sometimes large with shipped knobs
	class := r.pick(1, 2, 2, 2, 2, 3)
	if sc.Knobs == [4]int{} {
		class = r.pick(2, 3, 3, 4)
		// giant operands (170-360 words; scratch requests above 512 words) are
		// expensive under the every-yield memory monitor: rare in the quick tier
		if pg := map[string]float64{"thorough": 0.12}[tier]; r.chance(pg + 0.05) {
			class = 5
		}
	}
	nShared := r.rangeI(2, 6)
	nTasks := r.rangeI(2, 5)
	maxOps := 6
	if class == 5 {
		// giant operands (170-360 words): few variables, few operations
		nShared, nTasks, maxOps = 2, r.rangeI(2, 3), 3
	}
	for i := 0; i < nShared; i++ {
		v := r.genVar(class, 0.12, false)
		r.c18Exp(&v)
		v.Shared = true
		sc.Vars = append(sc.Vars, v)
	}
	// enabled op groups for this run (swarm)
	var menu []string
	if r.chance(0.9) {
		menu = append(menu, c18Arith...)
	}
	if r.chance(0.6) {
		menu = append(menu, c18Copy...)
	}
	if r.chance(0.6) {
		menu = append(menu, c18Get...)
	}
	if r.chance(0.35) {
		menu = append(menu, c18Private...)
	}
	if len(menu) == 0 {
		menu = c18Arith
	}
	if r.chance(0.3) {
		// single-kind run
		menu = []string{menu[r.intn(len(menu))]}
	}
	if class == 5 {
		menu = []string{"Mul", "Mul", "Quo", "Sqrt", "Mul"}
		maxOps = 4
	}
	opID := 0
	for t := 0; t < nTasks; t++ {
		nPriv := r.rangeI(1, 3)
		var priv []int
		for i := 0; i < nPriv; i++ {
			v := r.genVar(r.pick(1, class), 0.1, true)
			r.c18Exp(&v)
			v.Owner = t
			if v.Form != 1 {
				v.Prec = r.genPrec(8, true)
			}
			if r.chance(0.5) {
				// typical receiver: precision comparable to the operands
				v.Prec = r.genPrec(r.genLen(class), true)
			}
			priv = append(priv, len(sc.Vars))
			sc.Vars = append(sc.Vars, v)
		}
		var ts TaskSpec
		nOps := r.rangeI(1, maxOps)
		for i := 0; i < nOps; i++ {
			op := Op{ID: opID, Name: menu[r.intn(len(menu))], Z: priv[r.intn(len(priv))]}
			opID++
			operand := func() int {
				if r.chance(0.8) {
					return r.intn(nShared)
				}
				return priv[r.intn(len(priv))]
			}
			inf := opInfo[op.Name]
			for k := 0; k < inf.nargs; k++ {
				x := operand()
				if expCost[op.Name] {
					// cost proportional to |exponent|: only moderate exponents
					for try := 0; try < 8 && bigExp(&sc.Vars[x]); try++ {
						x = operand()
					}
					if bigExp(&sc.Vars[x]) {
						op.Name = "Cmp"
						inf = opInfo[op.Name]
					}
				}
				op.A = append(op.A, operand())
				op.A[len(op.A)-1] = x
			}
			for len(op.A) < inf.nargs {
				op.A = append(op.A, operand())
			}
			if inf.nargs >= 2 && r.chance(0.15) {
				op.A[1] = op.A[0] // x == y: squaring path
			}
			fillParams(r, &op)
			switch op.Name {
			case "Parse", "SetInt", "SetRat", "SetFloat64", "SetFloat", "UnmarshalText", "Scan", "GobDecode", "SetUint64":
				genParams(r, sc, &op)
				if op.Name == "Parse" && r.chance(0.6) {
					// non-decimal literals go through pow2 -> Mul/Quo -> the scratch pool
					op.M = 0
					op.S = fmt.Sprintf("0x%x%x.%xp%d", r.Uint64(), r.Uint64(), r.Uint64(), r.rangeI(-900, 900))
				}
			}
			if !inf.writes {
				op.Z = -1
			}
			ts.Ops = append(ts.Ops, op)
		}
		sc.Tasks = append(sc.Tasks, ts)
	}
	// pool policy and pool faults
	sc.Pool.Policy = r.pickS("lifo", "lifo", "fifo", "planned", "planned", "fresh")
	if sc.Pool.Policy == "planned" {
		for i, n := 0, r.rangeI(3, 12); i < n; i++ {
			sc.Pool.Picks = append(sc.Pool.Picks, r.rangeI(-1, 6))
		}
	}
	sc.Pool.Poison = r.pick(0, 1, 1, 1, 2, 3, 4)
	sc.Pool.PoisonSeed = r.Uint64()
	for i, n := 0, r.pick(0, 0, 1, 2, 4); i < n; i++ {
		sc.Pool.EmptyAt = append(sc.Pool.EmptyAt, r.intn(60))
	}
	for i, n := 0, r.pick(0, 0, 1, 3, 6); i < n; i++ {
		sc.Pool.Garbage = append(sc.Pool.Garbage, verifrt.GarbageSpec{At: r.intn(40), Cap: r.rangeI(4, 400), Pattern: r.pick(1, 1, 2, 4)})
	}
	sc.Start = r.intn(nTasks)
	return sc
}

func bigExp(v *VarSpec) bool { return v.Form == 1 && (v.Exp > 600 || v.Exp < -600) }

// c18Exp keeps most exponents moderate; about one variable in ten sits near the
// ends of the exponent range.
func (r rng) c18Exp(v *VarSpec) {
	if v.Form != 1 {
		return
	}
	if v.Exp > 600 || v.Exp < -600 {
		if r.chance(0.6) {
			v.Exp = int32(r.rangeI(-60, 60))
		}
	}
	if n := len(v.Words); n > 0 && n < 40 && r.chance(0.15) {
		// an integer whose digits fill its mantissa words exactly (no shift needed
		// to get at the integer part: conversions may be tempted to use the
		// operand's own words)
		v.Exp = int32(n * wordDigits)
	}
}

// fillParams draws the non-variable parameters of an op.
func fillParams(r rng, op *Op) {
	switch op.Name {
	case "SetMantExp":
		op.I = int64(r.pick(0, 1, -1, 19, -19, 300, -300, 1<<30, -(1 << 30)))
	case "Text", "Append":
		op.M = int("eEfgGpb"[r.intn(7)])
		op.P = r.pick(-1, -1, 0, 1, 5, 17, 19, 20, 40)
	case "Format":
		op.S = r.pickS("%v", "%g", "%e", "%.10e", "%+15.3f", "%-30.5G", "%030.8e", "% .4g", "%s", "%b", "%10.0f", "%F", "%d")
	case "Float", "FloatTo":
		op.P = r.pick(0, 0, 24, 53, 64, 100, 300)
		op.M = r.intn(6)
	}
}

// addPreemptions fills sc.Preempt from the seed, given the measured yields per
// op of the sequential reference run.
func addPreemptions(sc *Scenario, yields map[int]int, windows, atomics map[int][]int) {
	r := newRng(sc.Seed, 1818)
	kind := r.pick(1, 1, 2, 3, 3)
	if len(atomics) > 0 && r.chance(0.5) {
		kind = 3
	}
	if len(atomics) > 0 && r.chance(0.35) {
		kind = 4
	}
	if len(lastArgs) > 0 && r.chance(0.4) {
		kind = 5
	}
	nt := len(sc.Tasks)
	if nt < 2 {
		return
	}
	other := func(t int) int {
		n := r.intn(nt - 1)
		if n >= t {
			n++
		}
		return n
	}
	switch kind {
	case 1: // PCT-style: d change points over the whole run
		d := r.rangeI(1, 8)
		for i := 0; i < d; i++ {
			t := r.intn(nt)
			ops := sc.Tasks[t].Ops
			if len(ops) == 0 {
				continue
			}
			op := ops[r.intn(len(ops))]
			y := yields[op.ID]
			if y < 1 {
				continue
			}
			sc.Preempt = append(sc.Preempt, verifrt.Preempt{Task: t, Op: op.ID, K: 1 + r.intn(y), Next: other(t)})
		}
	case 2: // random walk: per-yield switch probability 2^-5..2^-11
		sh := r.rangeI(5, 11)
		for t := range sc.Tasks {
			for _, op := range sc.Tasks[t].Ops {
				y := yields[op.ID]
				for k := 1; k <= y; k++ {
					if r.Uint64()&(1<<uint(sh)-1) == 0 {
						sc.Preempt = append(sc.Preempt, verifrt.Preempt{Task: t, Op: op.ID, K: k, Next: other(t)})
					}
				}
			}
		}
		if len(sc.Preempt) > 400 {
			sc.Preempt = sc.Preempt[:400]
		}
	case 5: // lock-free code: stall one task between reading the operands of an
		// atomic operation and the operation itself, let the others complete a few
		// whole lock-free operations (bursts of atomic statements) in turn, resume it
		type pt struct{ op, k int }
		flat := func(t int, m map[int][]int) []pt {
			var out []pt
			for _, op := range sc.Tasks[t].Ops {
				ks := append([]int(nil), m[op.ID]...)
				sort.Ints(ks)
				last := 0
				for _, k := range ks {
					if k >= 1 && k != last {
						out = append(out, pt{op.ID, k})
						last = k
					}
				}
			}
			return out
		}
		victim := r.intn(nt)
		vp := flat(victim, lastArgs)
		if len(vp) == 0 {
			for t := 0; t < nt && len(vp) == 0; t++ {
				victim = t
				vp = flat(t, lastArgs)
			}
			if len(vp) == 0 {
				return
			}
		}
		stall := vp[r.intn(len(vp))]
		if r.chance(0.5) {
			stall = vp[r.intn(1+len(vp)/4)] // early: the others are still at their start
		}
		sc.Start = victim
		// bursts of the other tasks: end points of runs of atomic statements
		bursts := make([][]pt, nt)
		for t := 0; t < nt; t++ {
			a := flat(t, atomics)
			for i, p := range a {
				if i+1 == len(a) || a[i+1].op != p.op || a[i+1].k-p.k > 12 {
					bursts[t] = append(bursts[t], p)
				}
			}
		}
		cursor := make([]int, nt)
		hops := r.rangeI(2, 5)
		curT := other(victim)
		sc.Preempt = append(sc.Preempt, verifrt.Preempt{Task: victim, Op: stall.op, K: stall.k, Next: curT})
		for h := 0; h < hops; h++ {
			nextT := victim
			if h+1 < hops {
				for tries := 0; tries < 4; tries++ {
					nextT = r.intn(nt)
					if nextT != victim && (nextT != curT || nt == 2) {
						break
					}
				}
				if nextT == victim {
					nextT = other(victim)
				}
			}
			c := cursor[curT] + r.pick(1, 1, 1, 2, 3) - 1
			if c >= len(bursts[curT]) {
				// the task runs to its end; the scheduler then continues with another one
				cursor[curT] = len(bursts[curT])
				curT = nextT
				continue
			}
			cursor[curT] = c + 1
			b := bursts[curT][c]
			k := b.k + r.pick(0, 1, 1, 2, 3)
			if y := yields[b.op]; k > y {
				k = y
			}
			if k >= 1 {
				sc.Preempt = append(sc.Preempt, verifrt.Preempt{Task: curT, Op: b.op, K: k, Next: nextT})
			}
			curT = nextT
		}
	case 4: // lock-free code: dense ping-pong, a switch at every atomic statement / lock operation with probability q
		q := []float64{0.15, 0.3, 0.5}[r.intn(3)]
		var ids []int
		for id := range atomics {
			ids = append(ids, id)
		}
		sort.Ints(ids)
		for _, id := range ids {
			t := taskOfOp(sc, id)
			if t < 0 {
				continue
			}
			seen := map[int]bool{}
			for _, k := range atomics[id] {
				if k < 1 || seen[k] {
					continue
				}
				seen[k] = true
				if r.chance(q) {
					sc.Preempt = append(sc.Preempt, verifrt.Preempt{Task: t, Op: id, K: k, Next: other(t)})
				}
			}
		}
		if len(sc.Preempt) > 600 {
			sc.Preempt = sc.Preempt[:600]
		}
	case 3: // targeted: inside pool-holding windows and right after a Put; next to sync/atomic statements
		if len(atomics) > 0 && r.chance(0.7) {
			// lock-free code: a preemption between two atomic operations is where it breaks
			windows = atomics
		} else if len(atomics) > 0 {
			merged := map[int][]int{}
			for id, w := range windows {
				merged[id] = append(merged[id], w...)
			}
			for id, w := range atomics {
				merged[id] = append(merged[id], w...)
			}
			windows = merged
		}
		var ids []int
		for id := range windows {
			ids = append(ids, id)
		}
		sort.Ints(ids)
		if len(ids) == 0 {
			// nothing uses the pool: fall back to PCT
			sc.Seed ^= 0 // (seed unchanged; deterministic fallback below)
			d := r.rangeI(1, 6)
			for i := 0; i < d; i++ {
				t := r.intn(nt)
				ops := sc.Tasks[t].Ops
				if len(ops) == 0 {
					continue
				}
				op := ops[r.intn(len(ops))]
				if y := yields[op.ID]; y > 0 {
					sc.Preempt = append(sc.Preempt, verifrt.Preempt{Task: t, Op: op.ID, K: 1 + r.intn(y), Next: other(t)})
				}
			}
			return
		}
		d := r.rangeI(2, 10)
		for i := 0; i < d; i++ {
			id := ids[r.intn(len(ids))]
			ws := windows[id]
			k := ws[r.intn(len(ws))] + r.pick(0, 0, 1, 2)
			t := taskOfOp(sc, id)
			if t < 0 || k < 1 {
				continue
			}
			sc.Preempt = append(sc.Preempt, verifrt.Preempt{Task: t, Op: id, K: k, Next: other(t)})
		}
	}
}

func taskOfOp(sc *Scenario, id int) int {
	for t := range sc.Tasks {
		for _, op := range sc.Tasks[t].Ops {
			if op.ID == id {
				return t
			}
		}
	}
	return -1
}

// c18Monitor builds the M-shared monitor for world w.
type memMonitor struct {
	w       *World
	sc      *Scenario
	last    []uint64 // digest per variable
	gbase   uint64
	abase   uint64 // digest of data held in package-level atomic values
	evals   uint64
	exclude int // variable that may change in the current step (-1 none); hist worlds
	epoch   uint64
}

func newMemMonitor(sc *Scenario, w *World) *memMonitor {
	m := &memMonitor{w: w, sc: sc, exclude: -1}
	m.last = make([]uint64, len(w.V))
	m.snapshot()
	return m
}

func (m *memMonitor) snapshot() {
	for i, v := range m.w.V {
		m.last[i] = decimal.VerifDigest(0, v)
	}
	m.gbase = decimal.VerifGlobalsDigest()
	m.abase = decimal.VerifAtomicHeldDigest()
}

// check is called at every yield of task t.
func (m *memMonitor) check(t, op int, site uint32) string {
	m.evals++
	for i, v := range m.w.V {
		d := decimal.VerifDigest(0, v)
		if d == m.last[i] {
			continue
		}
		vs := &m.sc.Vars[i]
		if !vs.Shared && vs.Owner == t {
			m.last[i] = d // own receiver: allowed to change
			continue
		}
		kind := "shared operand"
		if !vs.Shared {
			kind = fmt.Sprintf("private variable of task %d", vs.Owner)
		}
		return fmt.Sprintf("%s v%d was modified while task %d executed op #%d (detected before %s)", kind, i, t, op, siteStr(site))
	}
	if g := decimal.VerifGlobalsDigest(); g != m.gbase {
		if verifrt.LocksHeld() > 0 || verifrt.LockEpoch != m.epoch {
			m.gbase = g
		} else {
			return fmt.Sprintf("package-level state of the library was modified, outside any lock, while task %d executed op #%d (detected before %s)", t, op, siteStr(site))
		}
	}
	if a := decimal.VerifAtomicHeldDigest(); a != m.abase {
		if verifrt.LocksHeld() > 0 || verifrt.LockEpoch != m.epoch || verifrt.JustAtomic() {
			m.abase = a
		} else {
			return fmt.Sprintf("data held in a package-level sync/atomic value was changed in place by an ordinary statement while task %d executed op #%d (detected before %s): whoever loaded it before is still reading it", t, op, siteStr(site))
		}
	}
	m.epoch = verifrt.LockEpoch
	return ""
}

// runTaskBody returns the body of a task: execute its ops in order.
func runTaskBody(sc *Scenario, w *World, t int, results []Result, after func(i int, op *Op, r *Result)) func() {
	return func() {
		defer panicOnFault()()
		for i := range sc.Tasks[t].Ops {
			if verifrt.Aborted() {
				return
			}
			op := &sc.Tasks[t].Ops[i]
			results[i] = execOp(w, op)
			if results[i].WriteFault != "" {
				verifrt.Violate("monitor", results[i].WriteFault+fmt.Sprintf(" while task %d executed op #%d %s", t, op.ID, op.Name))
			}
			if verifrt.Aborted() {
				return
			}
			if after != nil {
				verifrt.Pause()
				after(i, op, &results[i])
				verifrt.Resume()
			}
		}
	}
}

func violationFromReport(sc *Scenario, rep *verifrt.Report, phase string) *ViolationRec {
	v := rep.Violation
	if v == nil {
		return nil
	}
	rec := &ViolationRec{Property: sc.Property, Oracle: v.Kind, Task: v.Task, OpID: v.Op, Msg: phase + ": " + v.Msg}
	if op := opByID(sc, v.Task, v.Op); op != nil {
		rec.OpName = op.Name
	}
	if v.Site != 0 {
		rec.Site = siteStr(v.Site)
	}
	switch v.Kind {
	case "monitor":
		rec.Class = "operand-or-global-modified"
	case "pool":
		rec.Class = "pool-discipline"
	case "deadlock":
		rec.Class = "deadlock"
	default:
		rec.Class = v.Kind
	}
	rec.Sig = rec.Class + ":" + rec.OpName
	return rec
}

// aliasCheck reports a private variable whose mantissa array coincides with a
// shared operand's.
func aliasCheck(sc *Scenario, w *World) string {
	for i := range w.V {
		if sc.Vars[i].Shared {
			continue
		}
		p := decimal.VerifMantPtr(w.V[i])
		if p == 0 {
			continue
		}
		for j := range w.V {
			if j != i && (sc.Vars[j].Shared || sc.Vars[j].Owner != sc.Vars[i].Owner) && decimal.VerifMantPtr(w.V[j]) == p {
				return fmt.Sprintf("receiver v%d shares its mantissa array with v%d after the operation", i, j)
			}
		}
	}
	return ""
}

// refC18 runs every task alone (sequential reference). It returns the results,
// the yields per op and, per op, the yield indices at which pooled scratch was
// obtained (window starts).
func refC18(sc *Scenario) (res [][]Result, out *Outcome) {
	out = &Outcome{}
	res = make([][]Result, len(sc.Tasks))
	for t := range sc.Tasks {
		// every reference run and the concurrent run start from the same cold state
		resetLibrary()
		applyKnobs(sc.Knobs)
		w := buildWorld(sc)
		release := protectShared(sc, w)
		defer release()
		mon := newMemMonitor(sc, w)
		res[t] = make([]Result, len(sc.Tasks[t].Ops))
		var alias string
		body := runTaskBody(sc, w, t, res[t], func(i int, op *Op, r *Result) {
			if alias == "" {
				alias = aliasCheck(sc, w)
				if alias != "" {
					alias = fmt.Sprintf("op #%d %s: %s", op.ID, op.Name, alias)
				}
			}
		})
		// the reference task must see itself as task t for ownership purposes
		bodies := make([]func(), t+1)
		for i := range bodies {
			bodies[i] = func() {}
		}
		bodies[t] = body
		cfg := &verifrt.Config{Pool: verifrt.PoolCfg{Policy: "lifo"}, Monitor: mon.check, Start: t}
		rep := verifrt.Run(cfg, bodies)
		out.Steps += rep.Clock
		out.RefYields = append(out.RefYields, int(rep.Clock))
		if rep.Watchdog {
			out.Infra = "watchdog in sequential reference run"
			return
		}
		if v := violationFromReport(sc, rep, "sequential run of task "+fmt.Sprint(t)); v != nil {
			out.Violation = v
			return
		}
		if alias != "" {
			out.Violation = &ViolationRec{Property: sc.Property, Class: "receiver-aliases-operand", Oracle: "alias", Task: t, Msg: alias, Sig: "receiver-aliases-operand"}
			return
		}
	}
	return
}

// runC18 executes the scenario: sequential reference, then the concurrent run
// under the scenario's schedule and pool faults, then the comparison.
func runC18(sc *Scenario) *Outcome {
	applyKnobs(sc.Knobs)
	defer applyKnobs([4]int{})
	ref, out := refC18(sc)
	if out.Violation != nil || out.Infra != "" {
		return out
	}
	resetLibrary()
	applyKnobs(sc.Knobs)
	w := buildWorld(sc)
	release := protectShared(sc, w)
	defer release()
	mon := newMemMonitor(sc, w)
	res := make([][]Result, len(sc.Tasks))
	bodies := make([]func(), len(sc.Tasks))
	var alias string
	for t := range sc.Tasks {
		res[t] = make([]Result, len(sc.Tasks[t].Ops))
		bodies[t] = runTaskBody(sc, w, t, res[t], func(i int, op *Op, r *Result) {
			if alias == "" {
				if a := aliasCheck(sc, w); a != "" {
					alias = fmt.Sprintf("op #%d %s: %s", op.ID, op.Name, a)
				}
			}
		})
	}
	cfg := &verifrt.Config{Preempts: sc.Preempt, Pool: sc.Pool, Monitor: mon.check, Start: sc.Start, Panics: makePanics(sc)}
	rep := verifrt.Run(cfg, bodies)
	out.Rep = rep
	out.Results = res
	out.Counters = map[string]int{}
	out.Steps += rep.Clock
	out.Trace = rep.Trace
	if rep.Watchdog {
		out.Infra = "watchdog in concurrent run"
		return out
	}
	if v := violationFromReport(sc, rep, "concurrent run"); v != nil {
		out.Violation = v
		return out
	}
	if alias != "" {
		out.Violation = &ViolationRec{Property: sc.Property, Class: "receiver-aliases-operand", Oracle: "alias", Msg: alias, Sig: "receiver-aliases-operand"}
		return out
	}
	for t := range sc.Tasks {
		for i := range sc.Tasks[t].Ops {
			out.Ops++
			if res[t][i].Skipped {
				out.Counters["ops_skipped_cost_guard"]++
			}
			if res[t][i].Panicked && res[t][i].IsNaN {
				out.NaNPanics++
			}
			a, b := ref[t][i].Key(), res[t][i].Key()
			if a != b {
				op := &sc.Tasks[t].Ops[i]
				out.Violation = &ViolationRec{Property: sc.Property, Class: "result-differs-from-sequential", Oracle: "sequential-equivalence",
					OpName: op.Name, Task: t, OpID: op.ID,
					Msg: fmt.Sprintf("task %d op #%d %s: concurrent result differs from the sequential one\n  sequential: %s\n  concurrent: %s", t, op.ID, op.Name, ref[t][i].Short(), res[t][i].Short()),
					Sig: "result-differs-from-sequential:" + op.Name}
				return out
			}
		}
	}
	out.Nontrivial = rep.Switches > 0
	return out
}

// prepareC18 completes a generated scenario: measures the sequential run and
// derives the preemption plan from the seed.
func prepareC18(sc *Scenario) *Outcome {
	applyKnobs(sc.Knobs)
	defer applyKnobs([4]int{})
	ref, out := refC18Windows(sc)
	if out.Violation != nil || out.Infra != "" {
		return out
	}
	yields := map[int]int{}
	for t := range sc.Tasks {
		for i, op := range sc.Tasks[t].Ops {
			yields[op.ID] = ref[t][i].Yields
		}
	}
	addPreemptions(sc, yields, lastWindows, lastAtomic)
	return out
}

var lastWindows map[int][]int

// lastAtomic: per op, yield indices next to sync/atomic statements and lock operations.
var lastAtomic map[int][]int

// lastArgs: per op, yield indices between the evaluation of the value operands
// of a sync/atomic call and the call itself.
var lastArgs map[int][]int

// refC18Windows is refC18 plus recording of pool windows per op.
func refC18Windows(sc *Scenario) ([][]Result, *Outcome) {
	lastWindows = map[int][]int{}
	verifrt.PoolTrace = func(get bool, task, op, k int) {
		if op >= 0 {
			lastWindows[op] = append(lastWindows[op], k)
		}
	}
	lastArgs = map[int][]int{}
	verifrt.ArgTrace = func(task, op, k int) {
		if op >= 0 {
			lastArgs[op] = append(lastArgs[op], k)
		}
	}
	lastAtomic = map[int][]int{}
	verifrt.InterestTrace = func(task, op, k int) {
		if op >= 0 {
			// the yield before the statement, and the one right after it
			lastAtomic[op] = append(lastAtomic[op], k, k+1)
		}
	}
	defer func() { verifrt.PoolTrace = nil; verifrt.InterestTrace = nil; verifrt.ArgTrace = nil }()
	return refC18(sc)
}

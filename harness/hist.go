package main

import (
	"fmt"
	"math"
	"math/big"
	"strings"

	"github.com/db47h/decimal"
	dctx "github.com/db47h/decimal/context"
	verifrt "github.com/db47h/decimal/verifrt"
)

// ---------------------------------------------------------------------------
// History world (C04, C08, C09, C10): one task executes a generated history over
// a small set of variables; receivers are reused and aliased on purpose; pool
// faults, knob changes, NaN operations, failed parses and corrupted decodes are
// fault events inside the history. Each property enables its own oracle.

// stepCtx is what an oracle sees for one step.
type stepCtx struct {
	sc          *Scenario
	w           *World
	op          *Op
	idx         int
	pre         []Obs    // observation of every variable before the step
	preD        []uint64 // memory digest of every variable before the step
	res         *Result
	post        []Obs
	shRes       *Result // shadow result (C10)
	firedBefore int
	shObs       Obs
}

type histOracle interface {
	// before is called (yields paused) before the live call.
	before(c *stepCtx)
	// after is called (yields paused) after the live call; it returns a violation or nil.
	after(c *stepCtx) *ViolationRec
	monitor() func(task, op int, site uint32) string
	counters() map[string]int
}

var arithOps = []string{"Add", "Sub", "Mul", "Quo", "FMA", "Sqrt"}
var copyOps = []string{"Set", "Neg", "Abs", "Copy", "SetMantExp", "MantExp", "SetPrec", "SetMode", "SetInf"}
var setterOps = []string{"SetInt64", "SetUint64", "SetFloat64", "SetInt", "SetRat", "SetFloat", "SetBitsExp", "BitsSelf", "BitsEdit"}
var textOps = []string{"Parse", "SetString", "Scan", "Sscanf", "UnmarshalText", "UnmarshalJSON", "TextCopy", "JSONCopy"}
var gobOps = []string{"GobCopy", "GobDecode"}
var ctxHistOps = []string{"c.Add", "c.Sub", "c.Mul", "c.Quo", "c.FMA", "c.Sqrt", "c.Neg", "c.Abs", "c.Set", "c.Err"}
var getterOps = []string{"Cmp", "Sign", "IsInt", "MinPrec", "Attrs", "Int", "Int64", "Uint64", "Rat", "Float", "Float32", "Float64",
	"Text", "Append", "Format", "String", "GobEncode", "MarshalText", "MarshalJSON",
	"IntTo", "IntTo", "RatTo", "RatTo", "FloatTo"}

func genHist(prop string, seed uint64, tier string) *Scenario {
	r := newRng(seed, 0x48495354)
	sc := &Scenario{Property: prop, World: "hist", Seed: seed, Tier: tier}
	sc.Knobs = r.genKnobs(0.25)
	class := r.pick(0, 1, 1, 2, 2, 2, 3)
	if sc.Knobs == [4]int{} && r.chance(0.4) {
		class = r.pick(3, 4)
	}
	nv := r.rangeI(3, 6)
	for i := 0; i < nv; i++ {
		v := r.genVar(r.pick(class, class, 1), 0.15, true)
		if r.chance(0.7) {
			r.tameExp(&v)
			if v.Form == 1 && r.chance(0.8) {
				v.Exp = int32(r.rangeI(-50, 50))
			}
		}
		sc.Vars = append(sc.Vars, v)
	}
	// swarm: enabled op groups
	var menu []string
	add := func(p float64, g []string, w int) {
		if r.chance(p) {
			for i := 0; i < w; i++ {
				menu = append(menu, g...)
			}
		}
	}
	add(0.9, arithOps, 4)
	add(0.7, copyOps, 2)
	add(0.5, setterOps, 1)
	add(0.4, textOps, 1)
	add(0.4, gobOps, 2)
	add(0.35, getterOps, 1)
	if prop != "C09" && r.chance(0.3) {
		// operations through a context.Context (receiver distinct from its operands)
		sc.Ctx = &CtxSpec{Prec: uint(r.genPrec(r.pick(1, 2, 4), true)), Mode: uint8(r.intn(6))}
		for i := 0; i < 3; i++ {
			menu = append(menu, ctxHistOps...)
		}
		// attribute transitions of the context and its factories
		menu = append(menu, "c.SetPrec", "c.SetMode", "c.SetMode")
		menu = append(menu, ctxNew...)
	}
	if len(menu) == 0 {
		menu = arithOps
	}
	// focus runs (swarm): one kernel family with constructed operands
	focus := ""
	if r.chance(0.12) {
		focus = r.pickS("div", "div", "mul", "sqrt")
		n := r.rangeI(2, 24)
		if sc.Knobs == [4]int{} && r.chance(0.5) {
			n = r.rangeI(90, 230) // shipped thresholds: recursive division needs 100+ word divisors
		}
		m := r.rangeI(1, 2*n)
		u, v := r.genDivision(n, m)
		if r.chance(0.3) {
			// short dividend, long divisor, quotient about half as long as the divisor
			// (the shape that needs the final block of recursive division to be right)
			u = r.genWords(r.rangeI(1, 2), r.pick(1, 1, 0, 4))
			m = n/2 + r.rangeI(-2, 2)
			if m < 1 {
				m = 1
			}
		}
		mk := func(w []uint64) VarSpec {
			return VarSpec{Form: 1, Words: w, Exp: int32(r.rangeI(-20, 20)), Prec: uint32(len(w) * wordDigits), Mode: uint8(r.intn(6)), Neg: r.chance(0.3)}
		}
		if focus == "mul" && r.chance(0.6) {
			// factors made of round words and of small words at the binary/decimal
			// boundaries: partial sums that land exactly on the word base, products
			// that fit 64 bits but not a decimal word
			u = r.genWords(n, r.pick(6, 6, 7))
			v = r.genWords(r.rangeI(2, 2*n), r.pick(6, 6, 7))
			m = len(u) + len(v)
		}
		sc.Vars[0], sc.Vars[1] = mk(u), mk(v)
		for i := 2; i < nv; i++ {
			// receivers: precision around the quotient length, sometimes dirty
			sc.Vars[i].Prec = uint32((m + r.rangeI(-1, 3)) * wordDigits)
			if sc.Vars[i].Prec < 1 {
				sc.Vars[i].Prec = 1
			}
		}
		if focus == "sqrt" && r.chance(0.6) {
			// exact roots and exact ties: the root has p or p+1 digits (the last one a
			// 5) for the receivers' precision p, the operand is its square (or next to it)
			p := r.pick(1, 2, 3, 5, 7, 16, 19, 20, 34, r.rangeI(1, 60))
			for i := 0; i < 2; i++ {
				sc.Vars[i] = sqrtTieVar(r, p)
			}
			for i := 2; i < nv; i++ {
				sc.Vars[i].Prec = uint32(p)
				sc.Vars[i].Mode = uint8(r.intn(6))
			}
		}
		switch focus {
		case "div":
			menu = []string{"Quo", "Quo", "Quo", "Quo", "Set", "SetPrec", "Mul"}
		case "mul":
			menu = []string{"Mul", "Mul", "Mul", "FMA", "Set", "SetPrec"}
		case "sqrt":
			menu = []string{"Sqrt", "Sqrt", "Sqrt", "Mul", "Set", "SetMode", "Add"}
		}
	}
	if focus == "" && r.chance(0.04) {
		// fused multiply-add with an addend that cancels the exact product:
		// v2 = -(v0*v1) computed exactly, then FMA(z, v0, v1, v2) into short receivers
		focus = "fma"
		for nv < 5 {
			sc.Vars = append(sc.Vars, r.genVar(1, 0, true))
			nv++
		}
		a, b := r.rangeI(1, 6), r.rangeI(1, 6)
		if r.chance(0.2) {
			a, b = r.rangeI(8, 40), r.rangeI(8, 40)
		}
		mk := func(n int) VarSpec {
			w := r.genWords(n, r.pick(1, 1, 0, 4))
			return VarSpec{Form: 1, Words: w, Exp: int32(r.rangeI(-30, 30)), Prec: uint32(n * wordDigits), Mode: uint8(r.intn(6)), Neg: r.chance(0.4)}
		}
		sc.Vars[0], sc.Vars[1] = mk(a), mk(b)
		sc.Vars[2] = VarSpec{Form: 0, Prec: uint32((a + b) * wordDigits), Mode: uint8(r.intn(6))}
		for i := 3; i < nv; i++ {
			sc.Vars[i].Prec = uint32(r.pick(1, 2, 5, 19, 20, 21, 38, r.rangeI(1, (a+b)*wordDigits)))
			sc.Vars[i].Mode = uint8(r.intn(6))
		}
	}
	nanRate := r.pick(0, 0, 5, 15, 30) // percent of arithmetic steps drawn from the invalid table
	if focus == "fma" {
		nanRate = 0
	}
	n := r.rangeI(3, 14)
	if tier == "thorough" && r.chance(0.3) {
		n = r.rangeI(10, 40)
	}
	var ts TaskSpec
	for i := 0; i < n; i++ {
		op := Op{ID: i, Name: menu[r.intn(len(menu))], Z: r.intn(nv)}
		inf := opInfo[op.Name]
		for k := 0; k < inf.nargs; k++ {
			op.A = append(op.A, r.intn(nv))
		}
		// aliasing shapes on purpose
		if inf.nargs > 0 && inf.writes {
			switch r.intn(10) {
			case 0, 1:
				op.A[0] = op.Z
			case 2:
				op.A[len(op.A)-1] = op.Z
			case 3:
				for k := range op.A {
					op.A[k] = op.Z
				}
			case 4:
				if len(op.A) > 1 {
					op.A[1] = op.A[0]
				}
			}
		}
		if strings.HasPrefix(op.Name, "c.") && inf.writes && r.chance(0.5) {
			// receiver distinct from its operands (aliased context operations are
			// documented to round the receiver-operand first; the C10 oracle models that)
			for k := range op.A {
				if op.A[k] == op.Z {
					op.A[k] = (op.Z + 1 + r.intn(nv-1)) % nv
				}
			}
		}
		if !inf.writes && !isCtxFactory(op.Name) {
			op.Z = -1
		}
		if op.Name == "MantExp" && r.chance(0.2) {
			op.Z = -1
		}
		if focus == "mul" && (op.Name == "Mul" || op.Name == "FMA") && r.chance(0.7) {
			switch r.intn(4) {
			case 0:
				op.A[0], op.A[1] = 0, 0 // squaring path
			case 1:
				op.A[0], op.A[1] = 1, 1
			default:
				op.A[0], op.A[1] = 0, 1
			}
		}
		if focus == "div" && op.Name == "Quo" && r.chance(0.7) {
			op.A = []int{0, 1} // the constructed pair
			switch r.intn(6) {
			case 0:
				op.Z = 0
			case 1:
				op.Z = 1
			}
		}
		genParams(r, sc, &op)
		if focus == "fma" {
			z := r.rangeI(3, nv-1)
			switch r.intn(10) {
			case 0:
				op = Op{ID: i, Name: "SetMode", Z: z, M: r.intn(6)}
			case 1:
				op = Op{ID: i, Name: "SetPrec", Z: z, I: int64(r.pick(1, 2, 7, 19, 20, 34, 57))}
			default:
				op = Op{ID: i, Name: "FMA", Z: z, A: []int{0, 1, 2}}
				if r.chance(0.3) {
					op.A = []int{1, 0, 2}
				}
			}
			if i == 0 {
				ts.Ops = append(ts.Ops, Op{ID: 3000, Name: "Mul", Z: 2, A: []int{0, 1}}, Op{ID: 3001, Name: "Neg", Z: 2, A: []int{2}})
			}
			ts.Ops = append(ts.Ops, op)
			continue
		}
		ts.Ops = append(ts.Ops, op)
		if r.chance(0.08) {
			// fault event: some variable's buffer becomes large and stale
			ts.Ops = append(ts.Ops, Op{ID: 2000 + i, Name: "~dirty", Z: r.intn(nv), I: int64(r.rangeI(2, 60)), M: r.intn(3)})
		}
		if nanRate > 0 && r.intn(100) < nanRate {
			// fault event: make some variable special so that invalid classes arise
			sp := Op{ID: 1000 + i, Name: r.pickS("SetInf", "SetInf", "SetInt64", "Neg"), Z: r.intn(nv)}
			switch sp.Name {
			case "SetInf":
				sp.M = r.intn(2)
			case "SetInt64":
				sp.I = 0
			case "Neg":
				sp.A = []int{sp.Z}
			}
			ts.Ops = append(ts.Ops, sp)
		}
	}
	sc.Tasks = []TaskSpec{ts}
	genPoolFaults(r, sc)
	return sc
}

func genPoolFaults(r rng, sc *Scenario) {
	sc.Pool.Policy = r.pickS("lifo", "lifo", "fifo", "planned", "planned", "fresh")
	if sc.Pool.Policy == "planned" {
		for i, n := 0, r.rangeI(3, 12); i < n; i++ {
			sc.Pool.Picks = append(sc.Pool.Picks, r.rangeI(-1, 6))
		}
	}
	sc.Pool.Poison = r.pick(0, 1, 1, 1, 2, 3, 4)
	sc.Pool.PoisonSeed = r.Uint64()
	for i, n := 0, r.pick(0, 0, 1, 2, 4); i < n; i++ {
		sc.Pool.EmptyAt = append(sc.Pool.EmptyAt, r.intn(60))
	}
	for i, n := 0, r.pick(0, 0, 1, 3, 6); i < n; i++ {
		sc.Pool.Garbage = append(sc.Pool.Garbage, verifrt.GarbageSpec{At: r.intn(40), Cap: r.rangeI(4, 400), Pattern: r.pick(1, 1, 2, 4)})
	}
}

var f64Edges = []float64{0, math.Copysign(0, -1), 1, -1, 0.1, 0.5, 1e-5, 123456789.125, math.MaxFloat64, -math.MaxFloat64,
	math.SmallestNonzeroFloat64, 2.2250738585072014e-308, math.Inf(1), math.Inf(-1), 1 << 53, 1<<53 + 2, 9.999999999999999e22, 1e23}

// genParams draws the non-variable parameters for the full op menu.
// sqrtTieVar returns a positive value whose square root is exact at p digits,
// an exact tie at p digits (p+1 digits, the last one 5), or next to one.
func sqrtTieVar(r rng, p int) VarSpec {
	nd := r.pick(p, p+1, p+1, p+1, p-1, p+2)
	if nd < 1 {
		nd = 1
	}
	var sb strings.Builder
	sb.WriteByte(byte('1' + r.intn(9)))
	for k := 1; k < nd; k++ {
		sb.WriteByte(byte('0' + r.intn(10)))
	}
	hs := sb.String()
	if nd == p+1 && r.chance(0.75) {
		hs = hs[:nd-1] + "5"
	}
	h, _ := new(big.Int).SetString(hs, 10)
	x := new(big.Int).Mul(h, h)
	x.Add(x, big.NewInt(int64(r.pick(0, 0, 0, 0, 1, -1))))
	if x.Sign() <= 0 {
		x.SetInt64(1)
	}
	w := bigToWords(x)
	// an even shift of the exponent keeps the root a shifted copy of h
	return VarSpec{Form: 1, Words: w, Exp: int32(len(x.String()) + 2*r.rangeI(-4, 4)), Prec: uint32(len(w) * wordDigits), Mode: uint8(r.intn(6))}
}

func isCtxFactory(name string) bool {
	for _, n := range ctxNew {
		if n == name {
			return true
		}
	}
	return false
}

func genParams(r rng, sc *Scenario, op *Op) {
	fillParams(r, op)
	if strings.HasPrefix(op.Name, "c.") {
		fillCtxParams(r, op)
	}
	switch op.Name {
	case "BitsEdit":
		op.M = r.intn(6)
		op.U = r.Uint64()
		op.I = int64(r.pick(0, 0, 0, 1, -1, 25))
	case "c.SetPrec":
		op.I = int64(r.genPrec(r.pick(1, 2, 4), true))
	case "c.SetMode":
		op.M = r.intn(6)
	case "SetPrec":
		if r.chance(0.06) {
			op.I = 0
		} else if r.chance(0.03) {
			// the ends of the precision range (values above MaxPrec are clamped)
			op.I = []int64{math.MaxUint32, math.MaxUint32 - 18, math.MaxUint32 + 1, 1 << 31, 1 << 40}[r.intn(5)]
		} else {
			op.I = int64(r.genPrec(r.pick(1, 2, 5, 20), false))
		}
	case "SetMode":
		op.M = r.intn(6)
	case "SetInf":
		op.M = r.intn(2)
	case "SetInt64":
		op.I = []int64{0, 1, -1, 9, 10, 99, 1e18, -1e18, math.MaxInt64, math.MinInt64, math.MinInt64 + 1, 1e19 / 10, int64(r.Uint64())}[r.intn(13)]
	case "SetUint64":
		op.U = []uint64{0, 1, 10, 1e19 - 1, 1e19, 1e19 + 1, math.MaxUint64, 1 << 63, r.Uint64()}[r.intn(9)]
	case "SetFloat64":
		if r.chance(0.06) {
			// NaNs of every kind: the canonical quiet one, negative, signalling
			// (quiet bit clear), arbitrary payloads
			op.FB = []uint64{math.Float64bits(math.NaN()), 0x7ff0000000000001, 0xfff0000000000001, 0x7ff4000000000000, 0xfff8000000000000,
				0x7ff0000000000000 | (r.Uint64()&0x000fffffffffffff | 1), 0xfff0000000000000 | (r.Uint64()&0x0007ffffffffffff | 2)}[r.intn(7)]
		} else if r.chance(0.12) {
			// integers in [2^52, 2^53): the one range that needs no power-of-two scaling
			op.FB = math.Float64bits(float64(uint64(1)<<52 + r.Uint64()%(uint64(1)<<52)))
		} else if r.chance(0.5) {
			op.FB = math.Float64bits(f64Edges[r.intn(len(f64Edges))])
		} else {
			op.FB = r.Uint64()
			if f := math.Float64frombits(op.FB); math.IsNaN(f) {
				op.FB &^= 1 << 62
			}
		}
	case "SetInt":
		op.S = bigIntLit(r)
	case "SetRat":
		op.S = bigIntLit(r) + "/" + strings.TrimPrefix(bigIntLit(r), "-")
		if strings.HasSuffix(op.S, "/0") {
			op.S += "1"
		}
	case "SetFloat":
		op.P = r.pick(1, 24, 53, 64, 100, 500)
		switch r.intn(8) {
		case 0:
			op.S = r.pickS("+Inf", "-Inf", "0", "-0")
		case 1:
			// the ends of big.Float's exponent range
			op.S = fmt.Sprintf("%s0x1.%xp%s%d", r.pickS("", "-"), r.intn(1<<16), r.pickS("-", "+"), 2147483000+r.intn(648))
		default:
			op.S = fmt.Sprintf("%s%d.%de%d", r.pickS("", "-"), r.intn(1000), r.intn(100000), r.rangeI(-400, 400))
		}
	case "SetBitsExp":
		n := r.pick(0, 1, 1, 2, 3, 8, 30)
		for i := 0; i < n; i++ {
			op.W = append(op.W, r.genWord())
		}
		if n > 0 && r.chance(0.5) {
			op.W[n-1] = wordBase/10 + r.Uint64()%(wordBase-wordBase/10)
		}
		op.I = []int64{0, 1, -1, 40, -40, math.MaxInt32, math.MinInt32, math.MaxInt32 + 5, math.MinInt32 - 5, 1 << 40, -(1 << 40)}[r.intn(11)]
	case "Parse":
		op.M = r.pick(0, 0, 10, 10, 2, 8, 16)
		op.S = parseLit(r, op.M)
	case "SetString", "UnmarshalText":
		op.S = parseLit(r, 0)
	case "UnmarshalJSON":
		if r.chance(0.5) {
			op.S = parseLit(r, 10)
			if strings.TrimSpace(op.S) == "null" {
				// a bare JSON null never reaches the library (encoding/json leaves
				// the destination alone): send it as a string instead
				op.S = "\"null\""
			}
		} else {
			op.S = "\"" + parseLit(r, 10) + "\""
		}
	case "Scan", "Sscanf":
		op.S = r.pickS("", " ", "\n  ") + parseLit(r, 0) + r.pickS("", " ", " 7", "\n")
	case "GobDecode":
		op.B = gobPayload(r, sc)
	}
}

func bigIntLit(r rng) string {
	var b strings.Builder
	if r.chance(0.3) {
		b.WriteByte('-')
	}
	n := r.pick(1, 1, 5, 19, 20, 38, 60, 200)
	switch r.intn(5) {
	case 0:
		return b.String()[:0] + "0"
	case 1:
		b.WriteByte('1')
		for i := 1; i < n; i++ {
			b.WriteByte('0')
		}
	case 2:
		for i := 0; i < n; i++ {
			b.WriteByte('9')
		}
	default:
		b.WriteByte(byte('1' + r.intn(9)))
		for i := 1; i < n; i++ {
			b.WriteByte(byte('0' + r.intn(10)))
		}
	}
	return b.String()
}

// parseLit draws a literal for the parsers: mostly valid, sometimes malformed.
func parseLit(r rng, base int) string {
	switch r.intn(12) {
	case 0:
		// (incl. what the library itself prints for special cases: "<nil>" is
		// MarshalText of a nil pointer)
		return r.pickS("Inf", "+Inf", "-Inf", "inf", "-inf", "infinity", "NaN", "", "+", "-", ".", "e5", "0x", "1e", "1_", "_1", "1__2", "1e+", "--1", "1.2.3", "0b102", "1p5",
			"<nil>", "<nil>", "nil", "null", "0", "-0", "+0", "0e10", "0x0p4", "0_0.0_0")
	case 1:
		// non-decimal
		switch r.intn(4) {
		case 0:
			return fmt.Sprintf("0x%x.%xp%d", r.Uint64(), r.intn(1<<20), r.rangeI(-200, 200))
		case 1:
			return fmt.Sprintf("0b%b", r.Uint64())
		case 2:
			return fmt.Sprintf("0o%o.%oe%d", r.Uint64(), r.intn(1<<20), r.rangeI(-30, 30))
		default:
			return fmt.Sprintf("%d.%dp%d", r.intn(1000), r.intn(1000), r.rangeI(-300, 300))
		}
	case 2:
		s := decimalLiteral(r, 60)
		// corrupt one byte
		if len(s) > 0 {
			b := []byte(s)
			b[r.intn(len(b))] = "_ex.+-9\x00\xffz"[r.intn(10)]
			return string(b)
		}
		return s
	case 3:
		return decimalLiteral(r, 400)
	case 4:
		// underscores (legal only with base 0)
		return fmt.Sprintf("%d_%03d_%03d.%d_%d", r.intn(1000), r.intn(1000), r.intn(1000), r.intn(100), r.intn(100))
	}
	if base == 2 {
		return fmt.Sprintf("%b.%b", r.Uint32(), r.intn(256))
	}
	if base == 8 {
		return fmt.Sprintf("%o.%o", r.Uint32(), r.intn(512))
	}
	if base == 16 {
		return fmt.Sprintf("%x.%xp%d", r.Uint32(), r.intn(4096), r.rangeI(-64, 64))
	}
	return decimalLiteral(r, 45)
}

// gobPayload builds a payload for a GobDecode step: the real encoding of a
// value, intact or with a corruption fault (bytes_*).
func gobPayload(r rng, sc *Scenario) []byte {
	v := r.genVar(r.pick(0, 1, 2), 0.2, true)
	verifrt.Pause()
	x := buildVar(&v)
	if r.chance(0.5) {
		x.SetPrec(uint(r.genPrec(2, false))) // produce a non-exact accuracy
	}
	b, _ := x.GobEncode()
	b = ownBytes(b)
	verifrt.Resume()
	if r.chance(0.35) {
		return b
	}
	return corruptBytes(r, b, r.rangeI(1, 3))
}

func corruptBytes(r rng, b []byte, n int) []byte {
	b = append([]byte(nil), b...)
	for i := 0; i < n; i++ {
		switch r.intn(8) {
		case 0:
			if len(b) > 0 {
				b = b[:r.intn(len(b))]
			}
		case 1:
			if len(b) > 0 {
				b[r.intn(len(b))] ^= 1 << uint(r.intn(8))
			}
		case 2:
			if len(b) > 1 {
				b[1] = byte(r.intn(256))
			}
		case 3:
			if len(b) > 0 {
				b[r.intn(len(b))] = byte(r.pick(0, 0xff, 0x80, 0x7f))
			}
		case 4:
			// overwrite one mantissa word with an out-of-range value
			if len(b) >= 18 {
				k := (len(b) - 10) / 8
				o := 10 + 8*r.intn(k)
				val := []uint64{wordBase, math.MaxUint64, 0, wordBase/10 - 1, wordBase - 1}[r.intn(5)]
				for j := 0; j < 8; j++ {
					b[o+j] = byte(val >> uint(56-8*j))
				}
			}
		case 5:
			for j, m := 0, r.rangeI(1, 16); j < m; j++ {
				b = append(b, byte(r.intn(256)))
			}
		case 6:
			return nil // dropped message
		case 7:
			// precision field
			if len(b) >= 6 {
				p := []uint32{0, 1, 0xffffffff, 0x80000000, 19, 20}[r.intn(6)]
				b[2], b[3], b[4], b[5] = byte(p>>24), byte(p>>16), byte(p>>8), byte(p)
			}
		}
	}
	return b
}

func newOracle(prop string) histOracle {
	switch prop {
	case "C04":
		return &oracleC04{cnt: map[string]int{}}
	case "C08":
		return &oracleC08{cnt: map[string]int{}}
	case "C09":
		return &oracleC09{cnt: map[string]int{}}
	case "C10":
		return &oracleC10{cnt: map[string]int{}}
	case "C19":
		return &oracleC19{cnt: map[string]int{}}
	}
	panic("no oracle for " + prop)
}

// ctxPrecProbe checks the documented clamping of a Context's precision at and
// beyond the top of the range, without doing arithmetic at such a precision:
// 0 means DefaultDecimalPrec, anything above MaxPrec means MaxPrec - also for
// values that are multiples of 2^32 (64-bit uint).
func ctxPrecProbe() string {
	vals := []uint{0, 1, decimal.MaxPrec - 1, decimal.MaxPrec}
	if ^uint(0)>>32 != 0 {
		one := uint(1)
		vals = append(vals, decimal.MaxPrec+1, decimal.MaxPrec+7, one<<33, 3*(one<<32), one<<62, ^uint(0))
	}
	for _, p := range vals {
		want := p
		if want == 0 {
			want = decimal.DefaultDecimalPrec
		}
		if want > decimal.MaxPrec {
			want = decimal.MaxPrec
		}
		c := dctx.New(p, decimal.ToZero)
		if c.Prec() != want {
			return fmt.Sprintf("context.New(%d, ...).Prec() = %d, want %d", p, c.Prec(), want)
		}
		c2 := dctx.New(7, decimal.ToZero)
		c2.SetPrec(p)
		if c2.Prec() != want {
			return fmt.Sprintf("Context.SetPrec(%d): Prec() = %d, want %d", p, c2.Prec(), want)
		}
		if d := c2.New(); d.Prec() != want || d.Mode() != decimal.ToZero {
			return fmt.Sprintf("Context.SetPrec(%d) then New(): Decimal has prec %d mode %v, want %d ToZero", p, d.Prec(), d.Mode(), want)
		}
	}
	return ""
}

func runHist(sc *Scenario) *Outcome {
	if sc.Property == "C19" && (sc.Seed&0x3ff == 7 || sc.Note == "ctx-prec-probe") {
		if msg := ctxPrecProbe(); msg != "" {
			out := &Outcome{Counters: map[string]int{}}
			out.Violation = &ViolationRec{Property: "C19", Class: "ctx-attr", Oracle: "context-model", OpName: "c.SetPrec", Msg: msg, Sig: "ctx-attr:precision-clamp"}
			rp := *sc
			rp.Note = "ctx-prec-probe"
			out.Repro = &rp
			return out
		}
	}
	applyKnobs(sc.Knobs)
	defer applyKnobs([4]int{})
	if sc.Far {
		maxSpread = 150000
		defer func() { maxSpread = 6000 }()
	}
	out := &Outcome{Counters: map[string]int{}}
	w := buildWorld(sc)
	or := newOracle(sc.Property)
	if s, ok := or.(interface{ setWorld(*Scenario, *World) }); ok {
		s.setWorld(sc, w)
	}
	ops := sc.Tasks[0].Ops
	results := make([]Result, len(ops))
	var viol *ViolationRec
	body := func() {
		for i := range ops {
			if verifrt.Aborted() {
				return
			}
			op := &ops[i]
			c := &stepCtx{sc: sc, w: w, op: op, idx: i}
			verifrt.Pause()
			c.pre = make([]Obs, len(w.V))
			c.preD = make([]uint64, len(w.V))
			for k, v := range w.V {
				c.pre[k] = observe(v)
				c.preD[k] = decimal.VerifDigest(0, v)
			}
			or.before(c)
			c.firedBefore = verifrt.PanicsFired()
			verifrt.Resume()
			results[i] = execOp(w, op)
			if verifrt.Aborted() {
				return
			}
			c.res = &results[i]
			verifrt.Pause()
			c.post = make([]Obs, len(w.V))
			for k, v := range w.V {
				c.post[k] = observe(v)
			}
			v := or.after(c)
			if v == nil && results[i].NilRes {
				// New, NewInt64, NewFloat64, ...: "create a new decimal.Decimal" whatever
				// the state of the context (only NewString / ParseDecimal may return nil,
				// together with a reported failure)
				v = &ViolationRec{Class: "nil-result", Oracle: "factory-contract", Msg: "a Context factory returned a nil *Decimal\n  " + opDesc(c), Sig: "nil-result:" + op.Name}
			}
			verifrt.Resume()
			out.Ops++
			if results[i].Skipped {
				out.Counters["ops_skipped_cost_guard"]++
			}
			if results[i].Panicked && results[i].IsNaN {
				out.NaNPanics++
			}
			if results[i].Failed {
				out.Counters["ops_reported_failure"]++
			}
			if v != nil {
				v.Property = sc.Property
				v.OpName = op.Name
				v.OpID = op.ID
				viol = v
				return
			}
		}
	}
	cfg := &verifrt.Config{Pool: sc.Pool, Monitor: or.monitor(), Panics: makePanics(sc), MaxYields: 8000000}
	rep := verifrt.Run(cfg, []func(){body})
	out.Rep = rep
	out.Results = [][]Result{results}
	out.Steps = rep.Clock
	out.Trace = rep.Trace
	for k, v := range or.counters() {
		out.Counters[k] += v
	}
	if rep.Watchdog {
		out.Infra = "watchdog"
		return out
	}
	if v := violationFromReport(sc, rep, "history"); v != nil {
		out.Violation = v
		return out
	}
	if viol != nil && viol.Class == "infra-shadow-timeout" {
		out.Infra = "watchdog: " + viol.Msg
		return out
	}
	out.Violation = viol
	out.Nontrivial = out.Ops > 0
	// trace also covers the results, so that the determinism self-test compares outcomes
	for i := range results {
		for _, ch := range []byte(results[i].Key()) {
			out.Trace = (out.Trace ^ uint64(ch)) * 0x100000001b3
		}
	}
	return out
}

func opDesc(c *stepCtx) string {
	var b strings.Builder
	fmt.Fprintf(&b, "step %d: ", c.idx)
	if c.op.Z >= 0 {
		fmt.Fprintf(&b, "v%d.", c.op.Z)
	}
	b.WriteString(c.op.Name + "(")
	for i, a := range c.op.A {
		if i > 0 {
			b.WriteString(", ")
		}
		fmt.Fprintf(&b, "v%d", a)
	}
	b.WriteString(")")
	for i, a := range c.op.A {
		fmt.Fprintf(&b, "\n    v%d = %s", a, c.pre[a])
		_ = i
	}
	if c.op.Z >= 0 {
		fmt.Fprintf(&b, "\n    receiver v%d before = %s", c.op.Z, c.pre[c.op.Z])
		fmt.Fprintf(&b, "\n    receiver v%d after  = %s", c.op.Z, c.post[c.op.Z])
	}
	return b.String()
}

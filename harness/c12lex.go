package main

import (
	"math/big"
	"strconv"
)

// lit is the oracle's own reading of a literal, written from the grammar in the
// documentation of (*Decimal).Parse; it shares no code with the library.
type lit struct {
	ok    bool
	inf   bool
	neg   bool
	base  int
	mant  *big.Int
	exp2  int64
	exp10 int64
	zero  bool
	// expOverflow: exponent digits do not fit int64
	expErr bool
}

func digitVal(c byte) int {
	switch {
	case '0' <= c && c <= '9':
		return int(c - '0')
	case 'a' <= c && c <= 'z':
		return int(c-'a') + 10
	case 'A' <= c && c <= 'Z':
		return int(c-'A') + 10
	}
	return 99
}

// lexLiteral parses s completely (no trailing bytes allowed) for base in
// {0,2,8,10,16}.
func lexLiteral(s string, base int) (l lit) {
	if s == "Inf" || s == "inf" || s == "+Inf" || s == "+inf" {
		return lit{ok: true, inf: true}
	}
	if s == "-Inf" || s == "-inf" {
		return lit{ok: true, inf: true, neg: true}
	}
	i := 0
	if i < len(s) && (s[i] == '+' || s[i] == '-') {
		l.neg = s[i] == '-'
		i++
	}
	b := base
	sep := base == 0
	prefixed := false
	if base == 0 {
		b = 10
		if i+1 < len(s) && s[i] == '0' {
			switch s[i+1] {
			case 'b', 'B':
				b, prefixed = 2, true
			case 'o', 'O':
				b, prefixed = 8, true
			case 'x', 'X':
				b, prefixed = 16, true
			}
			if prefixed {
				i += 2
			}
		}
	}
	l.base = b
	// mantissa
	mant := new(big.Int)
	bb := big.NewInt(int64(b))
	ndig, nfrac := 0, 0
	seenDot := false
	prev := byte('.') // '.', '0' (digit) or '_'
	if prefixed {
		prev = '0' // an underscore may follow the prefix
	}
	badSep := false
	for i < len(s) {
		c := s[i]
		if c == '.' {
			if seenDot {
				break
			}
			if prev == '_' {
				badSep = true
			}
			seenDot = true
			prev = '.'
			i++
			continue
		}
		if c == '_' && sep {
			if prev != '0' {
				badSep = true
			}
			prev = '_'
			i++
			continue
		}
		d := digitVal(c)
		if d >= b {
			break
		}
		// in bases <= 10 'e'/'p' are not digits; in base 16 'p' is not a digit (25 >= 16)
		mant.Mul(mant, bb).Add(mant, big.NewInt(int64(d)))
		ndig++
		if seenDot {
			nfrac++
		}
		prev = '0'
		i++
	}
	if prev == '_' {
		badSep = true
	}
	if ndig == 0 {
		return lit{}
	}
	// exponent
	var exp int64
	ebase := 10
	if i < len(s) && (s[i] == 'e' || s[i] == 'E' || s[i] == 'p' || s[i] == 'P') {
		if s[i] == 'p' || s[i] == 'P' {
			ebase = 2
		}
		i++
		j := i
		if j < len(s) && (s[j] == '+' || s[j] == '-') {
			j++
		}
		digs := ""
		if j > i && s[i] == '-' {
			digs = "-"
		}
		eprev := byte('.')
		n := 0
		for j < len(s) {
			c := s[j]
			if '0' <= c && c <= '9' {
				digs += string(c)
				n++
				eprev = '0'
			} else if c == '_' && sep {
				if eprev != '0' {
					badSep = true
				}
				eprev = '_'
			} else {
				break
			}
			j++
		}
		if n == 0 {
			return lit{}
		}
		if eprev == '_' {
			badSep = true
		}
		v, err := strconv.ParseInt(digs, 10, 64)
		if err != nil {
			return lit{expErr: true}
		}
		exp = v
		i = j
	}
	if i != len(s) || badSep {
		return lit{}
	}
	l.ok = true
	l.mant = mant
	l.zero = mant.Sign() == 0
	f := int64(-nfrac)
	switch b {
	case 10:
		l.exp10 = f
	case 2:
		l.exp2 = f
	case 8:
		l.exp2 = 3 * f
	case 16:
		l.exp2 = 4 * f
	}
	if ebase == 10 {
		l.exp10 += exp
	} else {
		l.exp2 += exp
	}
	return l
}

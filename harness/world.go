package main

import (
	"fmt"
	"math/big"
	"strconv"
	"strings"

	"github.com/db47h/decimal"
	dctx "github.com/db47h/decimal/context"
	verifrt "github.com/db47h/decimal/verifrt"
)

const wordBase = uint64(decimal.DecimalBase)
const wordDigits = decimal.DigitsPerWord

// World is the set of variables one execution operates on.
type World struct {
	V   []*decimal.Decimal
	Ctx *dctx.Context
	// caller-supplied destinations of the conversions Int(z), Rat(z), Float(z);
	// they persist over the history (ops IntTo, RatTo, FloatTo)
	BI *big.Int
	BR *big.Rat
	BF *big.Float
}

func stalePattern(p int, seed uint64) func(i int) uint {
	return func(i int) uint {
		switch p {
		case 1:
			return uint(wordBase - 1)
		case 2:
			return uint(wordBase / 10)
		}
		x := seed + uint64(i+1)*0x9e3779b97f4a7c15
		x ^= x >> 29
		x *= 0xbf58476d1ce4e5b9
		x ^= x >> 32
		return uint(x % wordBase)
	}
}

// buildVar constructs a Decimal from its spec using the public API only (plus
// the overlay's VerifDirty for stale capacity).
func buildVar(s *VarSpec) *decimal.Decimal {
	z := new(decimal.Decimal).SetMode(decimal.RoundingMode(s.Mode))
	switch s.Form {
	case 0:
		z.SetPrec(uint(s.Prec))
		if s.Neg {
			z.Neg(z)
		}
	case 2:
		z.SetPrec(uint(s.Prec))
		z.SetInf(s.Neg)
	default:
		w := make([]decimal.Word, len(s.Words))
		for i, x := range s.Words {
			w[i] = decimal.Word(x % wordBase)
		}
		p := uint(len(w) * wordDigits)
		if p == 0 {
			p = 1
		}
		z.SetPrec(p)
		z.SetBitsExp(w, int64(s.Exp))
		if s.Neg {
			z.Neg(z)
		}
		if s.Prec == 0 {
			// a finite value cannot have precision 0; use the exact precision
			z.SetPrec(uint(z.MinPrec()))
		} else {
			z.SetPrec(uint(s.Prec))
		}
	}
	if s.Dirty > 0 {
		decimal.VerifDirty(z, s.Dirty, stalePattern(s.Pattern, uint64(s.Dirty)*977+uint64(len(s.Words))))
	}
	return z
}

func buildWorld(sc *Scenario) *World {
	w := &World{}
	verifrt.Pause()
	defer verifrt.Resume()
	for i := range sc.Vars {
		w.V = append(w.V, buildVar(&sc.Vars[i]))
	}
	if sc.Ctx != nil {
		c := dctx.New(sc.Ctx.Prec, decimal.RoundingMode(sc.Ctx.Mode))
		w.Ctx = &c
	}
	return w
}

// Obs is the observation tuple of DESIGN §3.4, read through the public API and
// decoded independently of the library's formatting code.
type Obs struct {
	Form   int // 0 zero 1 finite 2 inf
	Neg    bool
	Digits string // significant digits, trailing zeros stripped
	Exp    int32
	Prec   uint
	Mode   decimal.RoundingMode
	Acc    decimal.Accuracy
}

func (o Obs) String() string {
	f := [...]string{"zero", "fin", "inf"}[o.Form]
	s := "+"
	if o.Neg {
		s = "-"
	}
	d := o.Digits
	if len(d) > 60 {
		d = d[:28] + "…(" + strconv.Itoa(len(d)) + " digits)…" + d[len(d)-28:]
	}
	if o.Form != 1 {
		return fmt.Sprintf("%s%s prec=%d mode=%d acc=%d", s, f, o.Prec, o.Mode, o.Acc)
	}
	return fmt.Sprintf("%s0.%se%d prec=%d mode=%d acc=%d", s, d, o.Exp, o.Prec, o.Mode, o.Acc)
}

// Value returns the tuple without the attributes.
func (o Obs) Value() string {
	s := "+"
	if o.Neg {
		s = "-"
	}
	switch o.Form {
	case 0:
		return s + "0"
	case 2:
		return s + "Inf"
	}
	return s + "0." + o.Digits + "e" + strconv.Itoa(int(o.Exp))
}

func digitsOf(m []decimal.Word) string {
	var b strings.Builder
	for i := len(m) - 1; i >= 0; i-- {
		s := strconv.FormatUint(uint64(m[i]), 10)
		for k := len(s); k < wordDigits; k++ {
			b.WriteByte('0')
		}
		b.WriteString(s)
	}
	return strings.TrimRight(b.String(), "0")
}

// observe must be called with yields paused (or outside a run).
func observe(x *decimal.Decimal) Obs {
	o := Obs{Neg: x.Signbit(), Prec: x.Prec(), Mode: x.Mode(), Acc: x.Acc()}
	switch {
	case x.IsInf():
		o.Form = 2
	case x.IsZero():
		o.Form = 0
	default:
		o.Form = 1
		m, e := x.BitsExp()
		o.Digits = digitsOf(m)
		o.Exp = e
	}
	return o
}

func obsQ(x *decimal.Decimal) Obs {
	verifrt.Pause()
	defer verifrt.Resume()
	return observe(x)
}

// canonical checks the C08 invariant through the public API. It returns "" or a
// description of the first defect.
func canonical(x *decimal.Decimal) string {
	mode, acc := x.Mode(), x.Acc()
	if mode > decimal.ToPositiveInf {
		return fmt.Sprintf("rounding mode %d out of range", mode)
	}
	if acc < decimal.Below || acc > decimal.Above {
		return fmt.Sprintf("accuracy %d out of range", acc)
	}
	m, e := x.BitsExp()
	isInf, isZero := x.IsInf(), x.IsZero()
	if isInf && isZero {
		return "both zero and infinite"
	}
	if isInf || isZero {
		if len(m) != 0 {
			return "zero/inf exposes a non-empty mantissa"
		}
		if x.MinPrec() != 0 {
			return fmt.Sprintf("zero/inf has MinPrec %d", x.MinPrec())
		}
		if x.MantExp(nil) != 0 {
			return fmt.Sprintf("zero/inf has MantExp %d", x.MantExp(nil))
		}
		if isZero && x.Sign() != 0 {
			return "zero has non-zero Sign"
		}
		return ""
	}
	// finite
	if len(m) == 0 {
		return "finite value with empty mantissa"
	}
	for i, w := range m {
		if uint64(w) >= wordBase {
			return fmt.Sprintf("mantissa word %d = %d is not below the word base", i, uint64(w))
		}
	}
	top := uint64(m[len(m)-1])
	if top < wordBase/10 {
		return fmt.Sprintf("leading digit is zero (top word %d)", top)
	}
	if x.Prec() < 1 {
		return "finite value with precision 0"
	}
	d := digitsOf(m)
	if len(d) == 0 {
		return "finite value with all-zero mantissa"
	}
	if uint(len(d)) > x.Prec() {
		return fmt.Sprintf("%d significant digits exceed precision %d", len(d), x.Prec())
	}
	if mp := x.MinPrec(); mp != uint(len(d)) {
		return fmt.Sprintf("MinPrec %d disagrees with %d significant digits", mp, len(d))
	}
	if int64(e) < decimal.MinExp || int64(e) > decimal.MaxExp {
		return fmt.Sprintf("exponent %d out of range", e)
	}
	if x.MantExp(nil) != int(e) {
		return "MantExp disagrees with BitsExp"
	}
	if s := x.Sign(); (s < 0) != x.Signbit() || s == 0 {
		return "Sign disagrees with Signbit"
	}
	return ""
}

package main

import (
	"encoding/json"
	"fmt"
	"math"
	"math/big"
	"reflect"
	"strings"

	"github.com/db47h/decimal"
	verifrt "github.com/db47h/decimal/verifrt"
)

// Result is what one operation left behind.
type Result struct {
	Panicked   bool
	IsNaN      bool   // panic value has dynamic type decimal.ErrNaN
	PanicTyp   string // dynamic type of the panic value
	PanicMsg   string
	Injected   bool // the panic was injected by the simulator
	Failed     bool // the call reported failure through its return values
	Skipped    bool // not executed (cost guard)
	Timeout    bool // reference execution exceeded its step budget
	Ret        string
	WriteFault string // non-empty: the call faulted on write-protected operand memory (C18)
	NilRes     bool   // a factory that is documented to return a Decimal returned nil
	Foreign    string // non-empty: a math/big operand (SetInt, SetRat, SetFloat) was changed by the call
	Z          Obs
	HasZ       bool
	Yields     int
}

// Key is the comparison key of a result (DESIGN §3.4 observation tuple + return
// values + panic).
func (r *Result) Key() string {
	var b strings.Builder
	if r.Panicked {
		fmt.Fprintf(&b, "panic[%s:%s] ", r.PanicTyp, r.PanicMsg)
	}
	if r.Failed {
		b.WriteString("failed ")
	}
	b.WriteString("ret=")
	b.WriteString(r.Ret)
	if r.HasZ {
		b.WriteString(" z=")
		b.WriteString(r.Z.String())
		b.WriteString("|")
		b.WriteString(r.Z.Digits)
	}
	return b.String()
}

func (r *Result) Short() string {
	k := r.Key()
	if len(k) > 300 {
		k = k[:300] + "…"
	}
	return k
}

func parseBig(s string) *big.Int {
	z, ok := new(big.Int).SetString(s, 10)
	if !ok {
		z = big.NewInt(0)
	}
	return z
}

func parseRat(s string) *big.Rat {
	z, ok := new(big.Rat).SetString(s)
	if !ok {
		z = big.NewRat(0, 1)
	}
	return z
}

func parseFloat(s string, prec uint) *big.Float {
	if prec == 0 {
		prec = 64
	}
	switch s {
	case "+Inf", "Inf":
		return new(big.Float).SetPrec(prec).SetInf(false)
	case "-Inf":
		return new(big.Float).SetPrec(prec).SetInf(true)
	case "-0":
		return new(big.Float).SetPrec(prec).Neg(new(big.Float))
	}
	z, _, err := big.ParseFloat(s, 0, prec, big.ToNearestEven)
	if err != nil {
		z = new(big.Float).SetPrec(prec)
	}
	return z
}

// bigImage is everything observable of a big.Int operand, including the words
// of its backing array up to its capacity (a callee that borrows the spare
// capacity changes the operand).
func bigImage(x *big.Int) string {
	b := x.Bits()
	return fmt.Sprint(x.Sign(), len(b), cap(b), b[:cap(b)])
}

func floatImage(x *big.Float) string {
	return fmt.Sprint(x.Text('p', 0), x.Prec(), x.Mode(), x.Acc(), x.Signbit())
}

func foreignDiff(before, after string) string {
	if before == after {
		return ""
	}
	return "before " + before + ", after " + after
}

func accS(a decimal.Accuracy) string { return fmt.Sprintf("acc%d", int(a)) }
func baccS(a big.Accuracy) string    { return fmt.Sprintf("acc%d", int(a)) }

// receiverOps are operations whose receiver's previous value is irrelevant.
var opInfo = map[string]struct {
	nargs  int
	writes bool // writes its receiver
	readsZ bool // the receiver's previous value is an operand
}{
	"Add": {2, true, false}, "Sub": {2, true, false}, "Mul": {2, true, false}, "Quo": {2, true, false},
	"FMA": {3, true, false}, "Sqrt": {1, true, false}, "Set": {1, true, false}, "Neg": {1, true, false},
	"Abs": {1, true, false}, "Copy": {1, true, false},
	"SetPrec": {0, true, true}, "SetMode": {0, true, true},
	"SetInt64": {0, true, false}, "SetUint64": {0, true, false}, "SetFloat64": {0, true, false},
	"SetInt": {0, true, false}, "SetRat": {0, true, false}, "SetFloat": {0, true, false}, "SetInf": {0, true, false},
	"SetMantExp": {1, true, false}, "MantExp": {1, true, false},
	"SetBitsExp": {0, true, false}, "BitsSelf": {0, true, true}, "BitsEdit": {0, true, true},
	"Parse": {0, true, false}, "SetString": {0, true, false}, "Scan": {0, true, false}, "Sscanf": {0, true, false},
	"UnmarshalText": {0, true, false}, "UnmarshalJSON": {0, true, false}, "GobDecode": {0, true, false},
	"GobCopy": {1, true, false}, "TextCopy": {1, true, false}, "JSONCopy": {1, true, false},
	// getters: receiver is read only
	"Cmp": {2, false, false}, "Sign": {1, false, false}, "IsInt": {1, false, false}, "MinPrec": {1, false, false},
	"Int": {1, false, false}, "Int64": {1, false, false}, "Uint64": {1, false, false}, "Rat": {1, false, false},
	"Float": {1, false, false}, "Float32": {1, false, false}, "Float64": {1, false, false},
	"IntTo": {1, false, false}, "RatTo": {1, false, false}, "FloatTo": {1, false, false},
	"Text": {1, false, false}, "Append": {1, false, false}, "Format": {1, false, false}, "String": {1, false, false},
	"GobEncode": {1, false, false}, "MarshalText": {1, false, false}, "MarshalJSON": {1, false, false},
	"Attrs": {1, false, false},
	"c.Add": {2, true, false}, "c.Sub": {2, true, false}, "c.Mul": {2, true, false}, "c.Quo": {2, true, false},
	"c.FMA": {3, true, false}, "c.Sqrt": {1, true, false}, "c.Neg": {1, true, false}, "c.Abs": {1, true, false},
	"c.Set": {1, true, false}, "c.Err": {0, false, false},
	// harness-level fault event, not an API call: the receiver's mantissa buffer is
	// replaced by a larger one whose spare capacity holds stale (legal) words, as
	// if the variable had held a longer value before
	"~dirty": {0, true, true},
}

// execOp runs op on w. It recovers every panic. inj != nil marks panic values
// injected by the simulator.
func execOp(w *World, op *Op) (res Result) {
	var z *decimal.Decimal
	if op.Z >= 0 {
		z = w.V[op.Z]
	}
	a := func(i int) *decimal.Decimal { return w.V[op.A[i]] }
	fired0 := 0
	skipped := false
	defer func() {
		if r := recover(); r != nil {
			if r == verifrt.Abort {
				panic(r)
			}
			if r == verifrt.ShadowTimeout {
				res.Timeout = true
			}
			res.Panicked = true
			res.WriteFault = faultInProtected(r)
			res.Injected = verifrt.PanicsFired() > fired0
			_, res.IsNaN = r.(decimal.ErrNaN)
			res.PanicTyp = fmt.Sprintf("%T", r)
			res.PanicMsg = fmt.Sprint(r)
			if len(res.PanicMsg) > 200 {
				res.PanicMsg = res.PanicMsg[:200]
			}
		}
		if !skipped {
			res.Yields = verifrt.EndOp()
		}
		if z != nil && op.Z >= 0 {
			// a context op may have replaced the slot
			z = w.V[op.Z]
			verifrt.Pause()
			res.Z = observe(z)
			res.HasZ = true
			verifrt.Resume()
		}
	}()
	if why := costGuard(w, op); why != "" {
		res.Ret = "skipped: " + why
		res.Skipped = true
		z = nil
		skipped = true
		return
	}
	fired0 = verifrt.PanicsFired()
	verifrt.BeginOp(op.ID)
	if strings.HasPrefix(op.Name, "c.") {
		execCtxOp(w, op, z, &res)
		return
	}
	switch op.Name {
	case "Add":
		z.Add(a(0), a(1))
	case "Sub":
		z.Sub(a(0), a(1))
	case "Mul":
		z.Mul(a(0), a(1))
	case "Quo":
		z.Quo(a(0), a(1))
	case "FMA":
		z.FMA(a(0), a(1), a(2))
	case "Sqrt":
		z.Sqrt(a(0))
	case "Set":
		z.Set(a(0))
	case "Neg":
		z.Neg(a(0))
	case "Abs":
		z.Abs(a(0))
	case "Copy":
		z.Copy(a(0))
	case "SetPrec":
		z.SetPrec(uint(op.I))
	case "SetMode":
		z.SetMode(decimal.RoundingMode(op.M))
	case "SetInt64":
		z.SetInt64(op.I)
	case "SetUint64":
		z.SetUint64(op.U)
	case "SetFloat64":
		z.SetFloat64(math.Float64frombits(op.FB))
	case "SetInt":
		x := parseBig(op.S)
		img := bigImage(x)
		defer func() { res.Foreign = foreignDiff(img, bigImage(x)) }()
		z.SetInt(x)
	case "SetRat":
		x := parseRat(op.S)
		img := bigImage(x.Num()) + "/" + bigImage(x.Denom())
		defer func() { res.Foreign = foreignDiff(img, bigImage(x.Num())+"/"+bigImage(x.Denom())) }()
		z.SetRat(x)
	case "SetFloat":
		x := parseFloat(op.S, uint(op.P))
		img := floatImage(x)
		defer func() { res.Foreign = foreignDiff(img, floatImage(x)) }()
		z.SetFloat(x)
	case "SetInf":
		z.SetInf(op.M != 0)
	case "SetMantExp":
		z.SetMantExp(a(0), int(op.I))
	case "MantExp":
		res.Ret = fmt.Sprint(a(0).MantExp(z))
	case "SetBitsExp":
		m := make([]decimal.Word, len(op.W))
		for i, x := range op.W {
			m[i] = decimal.Word(x % wordBase)
		}
		z.SetBitsExp(m, op.I)
	case "~dirty":
		decimal.VerifDirty(z, int(op.I), stalePattern(op.M, uint64(op.I)*31+7))
	case "BitsEdit":
		// the documented raw workflow: take the receiver's own words, change them in
		// place, give them back ("obtained as a result of a call to BitsExp with the
		// same receiver"; "if mant is not normalized, SetBitsExp will normalize it")
		m, e := z.BitsExp()
		if n := len(m); n > 0 {
			switch op.M {
			case 0:
				m[n-1] /= 10 // leading digit becomes 0
			case 1:
				for i := range m {
					m[i] = 0
				}
			case 2:
				m[0] = decimal.Word(op.U % wordBase)
			case 3:
				m[n-1] = 1 // 18 leading zeros
			case 4:
				m[n-1] = 0 // a whole leading zero word
			case 5:
				for i := range m {
					m[i] = decimal.Word(wordBase - 1)
				}
			}
		}
		z.SetBitsExp(m, int64(e)+op.I)
	case "BitsSelf":
		m, e := z.BitsExp()
		z.SetBitsExp(m, int64(e))
	case "Parse":
		d, b, err := z.Parse(op.S, op.M)
		res.Failed = err != nil
		res.Ret = fmt.Sprintf("nil=%v same=%v base=%d", d == nil, d == z, b)
	case "SetString":
		d, ok := z.SetString(op.S)
		res.Failed = !ok
		res.Ret = fmt.Sprintf("nil=%v same=%v", d == nil, d == z)
	case "Scan":
		n, err := fmt.Sscan(op.S, z)
		res.Failed = err != nil
		res.Ret = fmt.Sprintf("n=%d", n)
	case "Sscanf":
		n, err := fmt.Sscanf(op.S, "%g", z)
		res.Failed = err != nil
		res.Ret = fmt.Sprintf("n=%d", n)
	case "UnmarshalText":
		err := z.UnmarshalText([]byte(op.S))
		res.Failed = err != nil
	case "UnmarshalJSON":
		err := json.Unmarshal([]byte(op.S), z)
		res.Failed = err != nil
	case "GobDecode":
		err := z.GobDecode(op.B)
		res.Failed = err != nil
	case "GobCopy":
		b, err := a(0).GobEncode()
		if err != nil {
			res.Failed = true
			res.Ret = "encode error"
			return
		}
		b = ownBytes(b)
		err = z.GobDecode(b)
		res.Failed = err != nil
		res.Ret = fmt.Sprintf("%x", b)
	case "TextCopy":
		b, err := a(0).MarshalText()
		if err != nil {
			res.Failed = true
			res.Ret = "encode error"
			return
		}
		err = z.UnmarshalText(b)
		res.Failed = err != nil
		res.Ret = string(b)
	case "JSONCopy":
		b, err := json.Marshal(a(0))
		if err != nil {
			res.Failed = true
			res.Ret = "encode error"
			return
		}
		err = json.Unmarshal(b, z)
		res.Failed = err != nil
		res.Ret = string(b)

	// ---- getters ----
	case "Cmp":
		res.Ret = fmt.Sprint(a(0).Cmp(a(1)))
	case "Sign":
		x := a(0)
		res.Ret = fmt.Sprint(x.Sign(), x.Signbit(), x.IsInf(), x.IsZero())
	case "IsInt":
		res.Ret = fmt.Sprint(a(0).IsInt())
	case "MinPrec":
		res.Ret = fmt.Sprint(a(0).MinPrec())
	case "Attrs":
		x := a(0)
		res.Ret = fmt.Sprint(x.Prec(), x.Mode(), x.Acc(), x.MantExp(nil))
	case "Int":
		i, acc := a(0).Int(nil)
		res.Ret = fmt.Sprint(i, accS(acc))
	case "Int64":
		i, acc := a(0).Int64()
		res.Ret = fmt.Sprint(i, accS(acc))
	case "Uint64":
		i, acc := a(0).Uint64()
		res.Ret = fmt.Sprint(i, accS(acc))
	case "Rat":
		r, acc := a(0).Rat(nil)
		res.Ret = fmt.Sprint(r, accS(acc))
	case "IntTo":
		if w.BI == nil {
			w.BI = new(big.Int)
		}
		i, acc := a(0).Int(w.BI)
		res.Ret = fmt.Sprint(i, accS(acc), i == w.BI)
	case "RatTo":
		if w.BR == nil {
			w.BR = new(big.Rat)
		}
		r, acc := a(0).Rat(w.BR)
		res.Ret = fmt.Sprint(r, accS(acc), r == w.BR)
	case "FloatTo":
		if w.BF == nil {
			w.BF = new(big.Float).SetMode(big.RoundingMode(op.M % 6))
			if op.P > 0 {
				w.BF.SetPrec(uint(op.P))
			}
		}
		f := a(0).Float(w.BF)
		res.Ret = fmt.Sprint(f.Text('p', 0), f.Prec(), f.Mode(), baccS(f.Acc()), f == w.BF)
	case "Float":
		var f *big.Float
		if op.P > 0 {
			f = new(big.Float).SetPrec(uint(op.P)).SetMode(big.RoundingMode(op.M % 6))
		}
		f = a(0).Float(f)
		res.Ret = fmt.Sprint(f.Text('p', 0), f.Prec(), baccS(f.Acc()))
	case "Float32":
		f, acc := a(0).Float32()
		res.Ret = fmt.Sprint(math.Float32bits(f), accS(acc))
	case "Float64":
		f, acc := a(0).Float64()
		res.Ret = fmt.Sprint(math.Float64bits(f), accS(acc))
	case "Text":
		res.Ret = a(0).Text(byte(op.M), op.P)
	case "Append":
		res.Ret = string(a(0).Append([]byte("x="), byte(op.M), op.P))
	case "Format":
		res.Ret = fmt.Sprintf(op.S, a(0))
	case "String":
		res.Ret = a(0).String()
	case "GobEncode":
		b, err := a(0).GobEncode()
		res.Failed = err != nil
		res.Ret = fmt.Sprintf("%x", ownBytes(b))
	case "MarshalText":
		b, err := a(0).MarshalText()
		res.Failed = err != nil
		res.Ret = string(ownBytes(b))
	case "MarshalJSON":
		b, err := json.Marshal(a(0))
		res.Failed = err != nil
		res.Ret = string(b)
	default:
		panic("harness: unknown op " + op.Name)
	}
	return
}

// operandVars returns the variables op reads (excluding a receiver that is only
// written).
func (op *Op) reads() []int { return op.A }

func typeName(v interface{}) string {
	if v == nil {
		return "nil"
	}
	return reflect.TypeOf(v).String()
}

// expCost lists operations whose running time and memory are proportional to
// the decimal exponent (they materialise every integer digit).
var expCost = map[string]bool{"Int": true, "Rat": true, "IntTo": true, "RatTo": true,
	"Text": true, "Append": true, "Format": true, "String": true, "IsInt": true, "MarshalText": true, "MarshalJSON": true,
	"TextCopy": true, "JSONCopy": true}

// precCost lists operations whose running time and memory are proportional to
// the receiver's precision even for tiny operands.
var precCost = map[string]bool{"Quo": true, "Sqrt": true, "SetRat": true, "SetFloat": true, "SetFloat64": true,
	"Parse": true, "SetString": true, "Scan": true, "Sscanf": true, "UnmarshalText": true, "UnmarshalJSON": true, "TextCopy": true, "JSONCopy": true}

// maxSpread is the largest exponent gap (in digits) of a sum the simulation
// executes; scenarios made for far-apart operands raise it for their own run.
var maxSpread int64 = 6000

const maxWorkPrec = 20000

// costGuard keeps the simulation away from operations whose cost is
// proportional to an exponent (difference): Add/Sub/FMA shift one mantissa by
// the exponent difference (the library documents this as "inefficient if
// exponents differ by wide margins"; at 10^9 digits it is gigabytes), the
// integer/float/'f'-format conversions materialise |exp| digits. Skipping is a
// deterministic function of the state, so every execution of the same history
// skips the same operations. Skipped operations are counted.
func costGuard(w *World, op *Op) string {
	verifrt.Pause()
	defer verifrt.Resume()
	name := op.Name
	if len(name) > 2 && name[:2] == "c." {
		name = name[2:]
	}
	fin := func(i int) (int64, bool) {
		if i >= len(op.A) {
			return 0, false
		}
		x := w.V[op.A[i]]
		if x.IsInf() || x.IsZero() {
			return 0, false
		}
		return int64(x.MantExp(nil)), true
	}
	lo := func(i int) int64 { // exponent of the least significant digit
		x := w.V[op.A[i]]
		return int64(x.MantExp(nil)) - int64(x.MinPrec())
	}
	// cost proportional to the working precision (a corrupted gob payload may
	// legally carry any uint32 precision, e.g. 4294967295)
	if precCost[name] && op.Z >= 0 && !(len(op.Name) > 2 && op.Name[:2] == "c.") {
		p := w.V[op.Z].Prec()
		if p == 0 {
			for _, a := range op.A {
				if q := w.V[a].Prec(); q > p {
					p = q
				}
			}
		}
		if p > maxWorkPrec {
			return "working precision exceeds the simulation's cost limit"
		}
	}
	if len(op.Name) > 2 && op.Name[:2] == "c." && w.Ctx != nil && w.Ctx.Prec() > maxWorkPrec {
		// operations through a Context work at the context's precision
		switch name {
		case "Quo", "Sqrt", "NewRat", "NewFloat", "NewFloat64", "NewString", "ParseDecimal", "NewInt":
			return "context precision exceeds the simulation's cost limit"
		}
	}
	if (name == "Float" && op.P == 0 || name == "FloatTo" && (w.BF == nil && op.P == 0 || w.BF != nil && w.BF.Prec() == 0)) && len(op.A) > 0 && w.V[op.A[0]].Prec() > maxWorkPrec {
		// Float(nil) works at ceil(Prec()*log2(10)) bits
		return "conversion at the operand's precision, which is above the simulation's cost limit"
	}
	if (name == "Text" || name == "Append") && op.M == 'b' || name == "Format" && strings.Contains(op.S, "b") {
		// the 'b' format prints Prec() digits
		if len(op.A) > 0 && w.V[op.A[0]].Prec() > maxWorkPrec {
			return "'b' format of a value with a precision above the simulation's cost limit"
		}
	}
	if name == "Mul" || name == "FMA" || name == "Sqrt" {
		// exact products of enormous operands (a receiver with a precision at the
		// top of the range that is squared again and again doubles its length each
		// time): legal, but hundreds of thousands of digits per step
		total := 0
		for i := 0; i < 2 && i < len(op.A); i++ {
			l, _ := decimal.VerifMantCap(w.V[op.A[i]])
			total += l
		}
		if total > 3000 {
			return "operands of more than 57000 digits: beyond the simulation's cost limit"
		}
	}
	switch name {
	case "Add", "Sub":
		e0, ok0 := fin(0)
		e1, ok1 := fin(1)
		if ok0 && ok1 {
			l0, l1 := lo(0), lo(1)
			if e0-l1 > maxSpread || e1-l0 > maxSpread {
				return "exponent spread of a sum exceeds the simulation's cost limit"
			}
		}
	case "FMA":
		e0, ok0 := fin(0)
		e1, ok1 := fin(1)
		e2, ok2 := fin(2)
		if ok0 && ok1 && ok2 {
			hi := e0 + e1
			l := lo(0) + lo(1)
			if hi-lo(2) > maxSpread || e2-l > maxSpread {
				return "exponent spread of a fused sum exceeds the simulation's cost limit"
			}
		}
	default:
		if expCost[name] {
			if e, ok := fin(0); ok && (e > maxSpread || e < -maxSpread) {
				if name == "Text" || name == "Append" {
					if op.M != 'f' {
						return ""
					}
				}
				if name == "Format" && !strings.Contains(op.S, "f") && !strings.Contains(op.S, "F") {
					return ""
				}
				if name == "String" || name == "MarshalText" || name == "MarshalJSON" || name == "TextCopy" || name == "JSONCopy" {
					return "" // %g switches to exponent notation
				}
				if name == "IsInt" {
					return ""
				}
				return "exponent-proportional conversion exceeds the simulation's cost limit"
			}
		}
	}
	return ""
}

package main

import (
	"math"
	"math/big"
	"strings"
)

// Executable reference model for "the exact result rounded once": exact integer
// arithmetic on (sign, digits, exponent) with math/big, then the digit-string
// rounder of refround.go. It shares no code with the library. Used by the C19
// oracle ("every Context operation ... leaves the result correctly rounded to
// the context's precision and mode").

type refNum struct {
	form int // 0 zero, 1 finite, 2 inf
	neg  bool
	D    *big.Int // > 0 when finite
	E    int64    // value = D * 10^E
}

func refFromObs(o Obs) refNum {
	n := refNum{form: o.Form, neg: o.Neg}
	if o.Form == 1 {
		n.D, _ = new(big.Int).SetString(o.Digits, 10)
		n.E = int64(o.Exp) - int64(len(o.Digits))
	}
	return n
}

var ten = big.NewInt(10)

func pow10Big(n int64) *big.Int { return new(big.Int).Exp(ten, big.NewInt(n), nil) }

// finish turns an exact finite value sign*D*10^E (plus a sticky flag for a
// truncated tail) into the rounded reference value, applying the exponent range.
func refFinish(neg bool, D *big.Int, E int64, sticky bool, p uint, mode int) refValue {
	if D.Sign() == 0 && !sticky {
		return refValue{Form: 0, Neg: neg}
	}
	s := D.String()
	if sticky {
		s += "1"
		E--
	}
	exp := int64(len(strings.TrimLeft(s, "0"))) + E
	if exp < math.MinInt32 {
		acc := -1 // magnitude decreased
		if neg {
			acc = 1
		}
		return refValue{Form: 0, Neg: neg, Acc: acc}
	}
	if exp > math.MaxInt32 {
		acc := 1
		if neg {
			acc = -1
		}
		return refValue{Form: 2, Neg: neg, Acc: acc}
	}
	return refRound(neg, s, E, p, mode)
}

// refArith computes the correctly rounded result of a finite-operand operation.
// ok=false: not modelled (special operands are the class model's business).
func refArith(op string, a []refNum, p uint, mode int) (refValue, bool) {
	fin := func(i int) bool { return i < len(a) && a[i].form == 1 }
	switch op {
	case "Set", "Neg", "Abs":
		if !fin(0) {
			return refValue{}, false
		}
		// Neg/Abs round first (with x's sign), then change the sign
		v := refFinish(a[0].neg, a[0].D, a[0].E, false, p, mode)
		switch op {
		case "Neg":
			v.Neg = !v.Neg
		case "Abs":
			v.Neg = false
		}
		return v, true
	case "Add", "Sub":
		if len(a) == 2 && (a[0].form == 0) != (a[1].form == 0) && (fin(0) || fin(1)) {
			// x + 0 = x, 0 + y = y, 0 - y = -y: the non-zero operand rounded once
			// (as a sum, i.e. with the sign it has in the sum)
			v := a[0]
			if a[0].form == 0 {
				v = a[1]
				if op == "Sub" {
					v.neg = !v.neg
				}
			}
			return refFinish(v.neg, v.D, v.E, false, p, mode), true
		}
		if !fin(0) || !fin(1) {
			return refValue{}, false
		}
		x, y := a[0], a[1]
		if op == "Sub" {
			y.neg = !y.neg
		}
		e := x.E
		if y.E < e {
			e = y.E
		}
		if x.E-e > 160000 || y.E-e > 160000 {
			return refValue{}, false
		}
		xs := new(big.Int).Mul(x.D, pow10Big(x.E-e))
		ys := new(big.Int).Mul(y.D, pow10Big(y.E-e))
		if x.neg {
			xs.Neg(xs)
		}
		if y.neg {
			ys.Neg(ys)
		}
		sum := xs.Add(xs, ys)
		if sum.Sign() == 0 {
			// exactly zero sum of opposite-signed operands
			return refValue{Form: 0, Neg: mode == 4}, true
		}
		neg := sum.Sign() < 0
		return refFinish(neg, sum.Abs(sum), e, false, p, mode), true
	case "Mul":
		if !fin(0) || !fin(1) {
			return refValue{}, false
		}
		return refFinish(a[0].neg != a[1].neg, new(big.Int).Mul(a[0].D, a[1].D), a[0].E+a[1].E, false, p, mode), true
	case "FMA":
		if !fin(0) || !fin(1) || !fin(2) {
			return refValue{}, false
		}
		prod := new(big.Int).Mul(a[0].D, a[1].D)
		pe := a[0].E + a[1].E
		u := a[2]
		e := pe
		if u.E < e {
			e = u.E
		}
		if pe-e > 160000 || u.E-e > 160000 {
			return refValue{}, false
		}
		ps := prod.Mul(prod, pow10Big(pe-e))
		us := new(big.Int).Mul(u.D, pow10Big(u.E-e))
		if a[0].neg != a[1].neg {
			ps.Neg(ps)
		}
		if u.neg {
			us.Neg(us)
		}
		sum := ps.Add(ps, us)
		if sum.Sign() == 0 {
			return refValue{Form: 0, Neg: mode == 4}, true
		}
		neg := sum.Sign() < 0
		return refFinish(neg, sum.Abs(sum), e, false, p, mode), true
	case "Quo":
		if !fin(0) || !fin(1) {
			return refValue{}, false
		}
		x, y := a[0], a[1]
		k := int64(p) + 2 + int64(len(y.D.String())) - int64(len(x.D.String()))
		if k < 0 {
			k = 0
		}
		num := new(big.Int).Mul(x.D, pow10Big(k))
		q, r := new(big.Int).QuoRem(num, y.D, new(big.Int))
		return refFinish(x.neg != y.neg, q, x.E-y.E-k, r.Sign() != 0, p, mode), true
	case "Sqrt":
		if !fin(0) || a[0].neg {
			return refValue{}, false
		}
		D, E := new(big.Int).Set(a[0].D), a[0].E
		if E%2 != 0 {
			D.Mul(D, ten)
			E--
		}
		k := int64(p) + 2 - int64(len(D.String()))/2 + 1
		if k < 0 {
			k = 0
		}
		m := D.Mul(D, pow10Big(2*k))
		n := new(big.Int).Sqrt(m)
		rem := new(big.Int).Sub(m, new(big.Int).Mul(n, n))
		return refFinish(false, n, E/2-k, rem.Sign() != 0, p, mode), true
	}
	return refValue{}, false
}

package main

import (
	"fmt"
	"math"

	"github.com/db47h/decimal"
)

func execCtxOp(w *World, op *Op, z *decimal.Decimal, res *Result) {
	c := w.Ctx
	a := func(i int) *decimal.Decimal { return w.V[op.A[i]] }
	ret := func(r *decimal.Decimal) {
		res.Ret = fmt.Sprintf("same=%v", r == z)
	}
	put := func(d *decimal.Decimal) {
		if d == nil {
			res.Failed = true
			res.NilRes = true
			res.Ret = "nil"
			return
		}
		w.V[op.Z] = d
	}
	switch op.Name {
	case "c.Add":
		ret(c.Add(z, a(0), a(1)))
	case "c.Sub":
		ret(c.Sub(z, a(0), a(1)))
	case "c.Mul":
		ret(c.Mul(z, a(0), a(1)))
	case "c.Quo":
		ret(c.Quo(z, a(0), a(1)))
	case "c.FMA":
		ret(c.FMA(z, a(0), a(1), a(2)))
	case "c.Sqrt":
		ret(c.Sqrt(z, a(0)))
	case "c.Neg":
		ret(c.Neg(z, a(0)))
	case "c.Abs":
		ret(c.Abs(z, a(0)))
	case "c.Set":
		ret(c.Set(z, a(0)))
	case "c.Err":
		err := c.Err()
		if err == nil {
			res.Ret = "nil"
		} else {
			_, isNaN := err.(decimal.ErrNaN)
			res.Ret = fmt.Sprintf("%T nan=%v %v", err, isNaN, err)
		}
	case "c.SetPrec":
		c.SetPrec(uint(op.I))
		res.Ret = fmt.Sprint(c.Prec())
	case "c.SetMode":
		c.SetMode(decimal.RoundingMode(op.M))
		res.Ret = fmt.Sprint(c.Mode())
	case "c.New":
		put(c.New())
	case "c.NewInt64":
		put(c.NewInt64(op.I))
	case "c.NewUint64":
		put(c.NewUint64(op.U))
	case "c.NewInt":
		put(c.NewInt(parseBig(op.S)))
	case "c.NewFloat64":
		put(c.NewFloat64(math.Float64frombits(op.FB)))
	case "c.NewFloat":
		put(c.NewFloat(parseFloat(op.S, uint(op.P))))
	case "c.NewRat":
		put(c.NewRat(parseRat(op.S)))
	case "c.NewString":
		d, ok := c.NewString(op.S)
		if !ok {
			res.Failed = true
			res.Ret = fmt.Sprintf("nil=%v", d == nil)
			return
		}
		put(d)
	case "c.ParseDecimal":
		d, b, err := c.ParseDecimal(op.S, op.M)
		if err != nil {
			res.Failed = true
			res.Ret = fmt.Sprintf("nil=%v", d == nil)
			return
		}
		res.Ret = fmt.Sprintf("base=%d", b)
		put(d)
	default:
		panic("harness: unknown context op " + op.Name)
	}
}

package main

import (
	"time"

	verifrt "github.com/db47h/decimal/verifrt"
)

// shrink minimises a failing scenario by delta debugging over its lists and by
// simplifying operands. A candidate is kept only if the same violation class
// (same oracle, same property) persists. Returns the minimised scenario (with
// Expect set to the violation it produces) and the number of executions used.
func shrink(sc *Scenario, run func(*Scenario) *Outcome, limit time.Duration) (*Scenario, int) {
	deadline := time.Now().Add(limit)
	evals := 0
	best := sc.Clone()
	want := sc.Expect.Class
	try := func(c *Scenario) bool {
		if time.Now().After(deadline) || evals > 3000 {
			return false
		}
		evals++
		o := run(c)
		if o.Infra == "" && o.Violation != nil && o.Violation.Class == want {
			c.Expect = o.Violation
			best = c
			return true
		}
		return false
	}
	// re-establish on the clone (also records the violation of this exact file)
	if !try(best.Clone()) {
		return best, evals
	}

	for round := 0; round < 6; round++ {
		before := size(best)
		// ops of each task
		for t := range best.Tasks {
			ddmin(len(best.Tasks[t].Ops), func(keep []bool) bool {
				c := best.Clone()
				var ops []Op
				for i, k := range keep {
					if k {
						ops = append(ops, c.Tasks[t].Ops[i])
					}
				}
				c.Tasks[t].Ops = ops
				return try(c)
			})
		}
		ddmin(len(best.Preempt), func(keep []bool) bool {
			c := best.Clone()
			var l []verifrt.Preempt
			for i, k := range keep {
				if k {
					l = append(l, c.Preempt[i])
				}
			}
			c.Preempt = l
			return try(c)
		})
		ddmin(len(best.Faults), func(keep []bool) bool {
			c := best.Clone()
			var l []Fault
			for i, k := range keep {
				if k {
					l = append(l, c.Faults[i])
				}
			}
			c.Faults = l
			return try(c)
		})
		// pool simplifications
		simple := []func(c *Scenario){
			func(c *Scenario) { c.Pool.EmptyAt = nil },
			func(c *Scenario) { c.Pool.Garbage = nil },
			func(c *Scenario) { c.Pool.Poison = 0 },
			func(c *Scenario) { c.Pool.Policy = "lifo"; c.Pool.Picks = nil },
			func(c *Scenario) { c.Knobs = [4]int{} },
			func(c *Scenario) { c.Start = 0 },
		}
		for _, f := range simple {
			c := best.Clone()
			f(c)
			if c.Digest() != best.Digest() {
				try(c)
			}
		}
		if best.Bytes != nil {
			ddmin(len(best.Bytes.Mut), func(keep []bool) bool {
				c := best.Clone()
				var l []ByteMut
				for i, k := range keep {
					if k {
						l = append(l, c.Bytes.Mut[i])
					}
				}
				c.Bytes.Mut = l
				return try(c)
			})
			ddmin(len(best.Bytes.Read), func(keep []bool) bool {
				c := best.Clone()
				var l []ReadFault
				for i, k := range keep {
					if k {
						l = append(l, c.Bytes.Read[i])
					}
				}
				c.Bytes.Read = l
				return try(c)
			})
		}
		// operand simplification
		for i := range best.Vars {
			v := best.Vars[i]
			cands := []func(v *VarSpec){
				func(v *VarSpec) { v.Dirty = 0; v.Pattern = 0 },
				func(v *VarSpec) { v.Exp = 0 },
				func(v *VarSpec) { v.Neg = false },
				func(v *VarSpec) { v.Mode = 0 },
				func(v *VarSpec) {
					if len(v.Words) > 1 {
						v.Words = v.Words[len(v.Words)/2:]
					}
				},
				func(v *VarSpec) {
					if len(v.Words) > 1 {
						v.Words = v.Words[1:]
					}
				},
				func(v *VarSpec) {
					for k := range v.Words {
						if k < len(v.Words)-1 {
							v.Words[k] = 0
						} else {
							v.Words[k] = wordBase / 10
						}
					}
				},
				func(v *VarSpec) {
					if v.Prec > 40 {
						v.Prec = v.Prec / 2
					}
				},
				func(v *VarSpec) {
					if v.Prec > 1 {
						v.Prec = uint32(len(v.Words) * wordDigits)
					}
				},
			}
			_ = v
			for _, f := range cands {
				c := best.Clone()
				f(&c.Vars[i])
				if c.Digest() != best.Digest() {
					try(c)
				}
			}
		}
		// drop variables no operation refers to
		{
			used := make([]bool, len(best.Vars))
			for _, t := range best.Tasks {
				for _, op := range t.Ops {
					if op.Z >= 0 && op.Z < len(used) {
						used[op.Z] = true
					}
					for _, a := range op.A {
						if a >= 0 && a < len(used) {
							used[a] = true
						}
					}
				}
			}
			remap := make([]int, len(used))
			c := best.Clone()
			c.Vars = nil
			for i, u := range used {
				if u {
					remap[i] = len(c.Vars)
					c.Vars = append(c.Vars, best.Vars[i])
				}
			}
			if len(c.Vars) < len(best.Vars) && len(c.Vars) > 0 {
				for t := range c.Tasks {
					for i := range c.Tasks[t].Ops {
						op := &c.Tasks[t].Ops[i]
						if op.Z >= 0 {
							op.Z = remap[op.Z]
						}
						for k := range op.A {
							op.A[k] = remap[op.A[k]]
						}
					}
				}
				try(c)
			}
		}
		// drop trailing empty tasks
		for len(best.Tasks) > 1 && len(best.Tasks[len(best.Tasks)-1].Ops) == 0 {
			c := best.Clone()
			c.Tasks = c.Tasks[:len(c.Tasks)-1]
			if !try(c) {
				break
			}
		}
		if size(best) >= before {
			break
		}
	}
	return best, evals
}

func size(sc *Scenario) int {
	n := len(sc.Preempt) + len(sc.Faults) + len(sc.Pool.EmptyAt) + len(sc.Pool.Garbage) + 2*len(sc.Vars)
	for _, t := range sc.Tasks {
		n += 3 * len(t.Ops)
	}
	for _, v := range sc.Vars {
		n += len(v.Words)
		if v.Dirty > 0 {
			n++
		}
	}
	if sc.Bytes != nil {
		n += len(sc.Bytes.Mut) + len(sc.Bytes.Read) + len(sc.Bytes.Payload)/8 + len(sc.Bytes.Text)/8
	}
	return n
}

// ddmin removes chunks of decreasing size from a list of n elements; test is
// called with the keep mask and returns whether the reduced scenario still
// fails (in which case the caller has already adopted it).
func ddmin(n int, test func(keep []bool) bool) {
	if n == 0 {
		return
	}
	keep := make([]bool, n)
	for i := range keep {
		keep[i] = true
	}
	alive := n
	for chunk := (n + 1) / 2; chunk >= 1; chunk /= 2 {
		for start := 0; start < n; {
			// build candidate: drop up to `chunk` alive elements from start
			cand := append([]bool(nil), keep...)
			dropped := 0
			i := start
			for ; i < n && dropped < chunk; i++ {
				if cand[i] {
					cand[i] = false
					dropped++
				}
			}
			if dropped == 0 {
				break
			}
			// compact mask relative to the *current* list (the caller's list shrinks when a candidate is adopted)
			var rel []bool
			for j := 0; j < n; j++ {
				if keep[j] {
					rel = append(rel, cand[j])
				}
			}
			if test(rel) {
				keep = cand
				alive -= dropped
			}
			start = i
		}
		if alive == 0 {
			return
		}
		if chunk == 1 {
			break
		}
	}
}

package main

import (
	"fmt"
	"math"
	"math/big"
	"strings"

	"github.com/db47h/decimal"
	verifrt "github.com/db47h/decimal/verifrt"
)

// ---------------------------------------------------------------------------
// C19 world: a context.Context as a state machine under NaN faults and injected
// foreign panics, against an executable reference model.

var ctxArith = []string{"c.Add", "c.Sub", "c.Mul", "c.Quo", "c.FMA", "c.Sqrt", "c.Neg", "c.Abs", "c.Set"}
var ctxNew = []string{"c.New", "c.NewInt64", "c.NewUint64", "c.NewInt", "c.NewFloat64", "c.NewFloat", "c.NewRat", "c.NewString", "c.ParseDecimal"}

var ctxArity = map[string]int{"c.Add": 2, "c.Sub": 2, "c.Mul": 2, "c.Quo": 2, "c.FMA": 3, "c.Sqrt": 1, "c.Neg": 1, "c.Abs": 1, "c.Set": 1}

func genCtx(seed uint64, tier string) *Scenario {
	r := newRng(seed, 0x435458)
	sc := &Scenario{Property: "C19", World: "hist", Seed: seed, Tier: tier}
	sc.Knobs = r.genKnobs(0.4)
	sc.Ctx = &CtxSpec{Prec: uint(r.genPrec(r.pick(1, 2, 4), true)), Mode: uint8(r.intn(6))}
	nv := r.rangeI(3, 6)
	special := r.pick(0, 10, 25, 50) // percent of special-valued variables: NaN fault density
	for i := 0; i < nv; i++ {
		v := r.genVar(r.pick(0, 1, 1, 2), float64(special)/100, true)
		if v.Form == 1 && r.chance(0.85) {
			v.Exp = int32(r.rangeI(-30, 30))
		}
		sc.Vars = append(sc.Vars, v)
	}
	// focus runs: long division / multiplication under the context with
	// constructed operands and history-laden receivers
	focus := r.chance(0.1)
	mulFocus := false
	if focus {
		dn := r.rangeI(2, 24)
		if sc.Knobs == [4]int{} && r.chance(0.4) {
			dn = r.rangeI(90, 210)
		}
		dm := r.rangeI(1, 2*dn)
		u, v := r.genDivision(dn, dm)
		if r.chance(0.3) {
			u = r.genWords(r.rangeI(1, 2), r.pick(1, 1, 0, 4))
			dm = dn/2 + r.rangeI(-2, 2)
			if dm < 1 {
				dm = 1
			}
		}
		mk := func(w []uint64) VarSpec {
			return VarSpec{Form: 1, Words: w, Exp: int32(r.rangeI(-20, 20)), Prec: uint32(len(w) * wordDigits), Mode: uint8(r.intn(6)), Neg: r.chance(0.3)}
		}
		mulFocus = r.chance(0.35)
		if mulFocus {
			// factors made of round words / small boundary words; full-length products
			u = r.genWords(dn, r.pick(6, 6, 7))
			v = r.genWords(r.rangeI(2, 2*dn), r.pick(6, 6, 7))
			dm = len(u) + len(v)
		}
		sc.Vars[0], sc.Vars[1] = mk(u), mk(v)
		sc.Ctx.Prec = uint((dm + r.rangeI(0, 2)) * wordDigits)
		for i := 2; i < nv; i++ {
			// receivers that held long values before
			sc.Vars[i] = mk(r.genWords(r.rangeI(dm, dm+dn), 4))
			sc.Vars[i].Dirty = dm + dn + r.rangeI(1, 8)
		}
	}
	// square-root focus: exact roots, exact ties (root with prec+1 digits ending
	// in 5) and their neighbours, under every rounding mode
	sqrtFocus := !focus && r.chance(0.06)
	if sqrtFocus {
		p := int(sc.Ctx.Prec)
		if p == 0 {
			p = 34
		}
		if p > 80 {
			p = r.rangeI(1, 80)
			sc.Ctx.Prec = uint(p)
		}
		for i := 0; i < 2 && i < nv; i++ {
			nd := r.pick(p, p+1, p+1, p-1, p+2)
			if nd < 1 {
				nd = 1
			}
			var sb strings.Builder
			sb.WriteByte(byte('1' + r.intn(9)))
			for k := 1; k < nd; k++ {
				sb.WriteByte(byte('0' + r.intn(10)))
			}
			hs := sb.String()
			if nd == p+1 && r.chance(0.7) {
				hs = hs[:nd-1] + "5"
			}
			h, _ := new(big.Int).SetString(hs, 10)
			x := new(big.Int).Mul(h, h)
			x.Add(x, big.NewInt(int64(r.pick(0, 0, 0, 1, -1))))
			if x.Sign() <= 0 {
				x.SetInt64(1)
			}
			w := bigToWords(x)
			sc.Vars[i] = VarSpec{Form: 1, Words: w, Exp: int32(len(x.String()) + r.rangeI(-7, 7)), Prec: uint32(len(w) * wordDigits)}
		}
	}
	// far-apart operands: sums and differences whose smaller term lies tens of
	// thousands of digits below the larger one (only a sticky digit, but on which side?)
	farFocus := !focus && !sqrtFocus && r.chance(0.006)
	if farFocus {
		sc.Far = true
		gap := r.rangeI(6100, 90000)
		if r.chance(0.5) {
			gap = r.rangeI(65000, 70000)
		}
		sc.Vars[0].Form, sc.Vars[1].Form = 1, 1
		if len(sc.Vars[0].Words) == 0 {
			sc.Vars[0].Words = r.genWords(1, 2)
		}
		if len(sc.Vars[1].Words) == 0 {
			sc.Vars[1].Words = r.genWords(1, 4)
		}
		if r.chance(0.5) {
			sc.Vars[0].Words = r.genWords(r.rangeI(1, 3), 2) // a power of ten: borrows run to the top
		}
		sc.Vars[0].Exp = int32(r.rangeI(-5, 5))
		sc.Vars[1].Exp = sc.Vars[0].Exp - int32(gap)
		if int(sc.Ctx.Prec) > 200 || sc.Ctx.Prec == 0 {
			sc.Ctx.Prec = uint(r.pick(1, 2, 5, 19, 20, 34, 57))
		}
	}
	n := r.rangeI(3, 25)
	var ts TaskSpec
	for i := 0; i < n; i++ {
		var op Op
		op.ID = i
		switch k := r.intn(100); {
		case k < 62:
			op.Name = ctxArith[r.intn(len(ctxArith))]
		case k < 76:
			op.Name = "c.Err"
		case k < 82:
			op.Name = "c.SetPrec"
			op.I = int64(r.genPrec(r.pick(1, 2, 4), true))

		case k < 87:
			op.Name = "c.SetMode"
			op.M = r.intn(6)
		default:
			op.Name = ctxNew[r.intn(len(ctxNew))]
		}
		op.Z = r.intn(nv)
		if ar, ok := ctxArity[op.Name]; ok {
			for k := 0; k < ar; k++ {
				a := r.intn(nv - 1)
				if a >= op.Z {
					a++ // receiver distinct from its operands (the property's precondition)
				}
				op.A = append(op.A, a)
			}
			if ar > 1 && r.chance(0.15) {
				op.A[1] = op.A[0]
			}
		}
		fillCtxParams(r, &op)
		if focus && r.chance(0.6) && nv > 2 {
			op = Op{ID: i, Name: r.pickS("c.Quo", "c.Quo", "c.Quo", "c.Mul", "c.FMA"), Z: r.rangeI(2, nv-1), A: []int{0, 1}}
			if op.Name == "c.FMA" {
				op.A = []int{0, 1, 1}
			}
			if mulFocus {
				op.Name = r.pickS("c.Mul", "c.Mul", "c.FMA")
				op.A = [][]int{{0, 1}, {0, 0}, {1, 1}, {1, 0}}[r.intn(4)]
				if op.Name == "c.FMA" {
					op.A = append(op.A, r.intn(2)) // (never the receiver: the property's precondition)
				}
			}
		}
		if farFocus && nv > 2 && r.chance(0.7) {
			op = Op{ID: i, Name: r.pickS("c.Sub", "c.Sub", "c.Add", "c.FMA", "c.SetMode"), Z: r.rangeI(2, nv-1), A: [][]int{{0, 1}, {1, 0}}[r.intn(2)]}
			switch op.Name {
			case "c.FMA":
				op.A = []int{0, 0, 1}
			case "c.SetMode":
				op = Op{ID: i, Name: "c.SetMode", Z: -1, M: r.intn(6)}
			}
		}
		if sqrtFocus && nv > 2 {
			if i%2 == 0 {
				op = Op{ID: i, Name: "c.SetMode", Z: -1, M: r.intn(6)}
			} else {
				op = Op{ID: i, Name: "c.Sqrt", Z: r.rangeI(2, nv-1), A: []int{r.intn(2)}}
			}
		}
		ts.Ops = append(ts.Ops, op)
		// NaN fault event: make a variable special through the context-free API
		if special > 0 && r.intn(100) < special/2 {
			z := r.intn(nv)
			ts.Ops = append(ts.Ops, Op{ID: 1000 + i, Name: r.pickS("SetInf", "SetInt64"), Z: z, M: r.intn(2)})
		}
	}
	sc.Tasks = []TaskSpec{ts}
	genPoolFaults(r, sc)
	return sc
}

// fillCtxParams draws the non-variable parameters of a context operation.
func fillCtxParams(r rng, op *Op) {
	switch op.Name {
	case "c.Err", "c.SetPrec", "c.SetMode":
		op.Z = -1
	case "c.NewInt64":
		op.I = []int64{0, 1, -1, math.MaxInt64, math.MinInt64, int64(r.Uint64())}[r.intn(6)]
	case "c.NewUint64":
		op.U = []uint64{0, 1, math.MaxUint64, r.Uint64()}[r.intn(4)]
	case "c.NewInt":
		op.S = bigIntLit(r)
	case "c.NewRat":
		op.S = bigIntLit(r) + "/" + strings.TrimPrefix(bigIntLit(r), "-")
		if strings.HasSuffix(op.S, "/0") {
			op.S += "7"
		}
	case "c.NewFloat64":
		if r.chance(0.25) {
			op.FB = math.Float64bits(math.NaN())
		} else {
			op.FB = math.Float64bits(f64Edges[r.intn(len(f64Edges))])
		}
	case "c.NewFloat":
		op.P = r.pick(24, 53, 100)
		op.S = r.pickS("+Inf", "-Inf", "0", "1.5", "-123.456e10", "7e-30")
	case "c.NewString":
		op.S = parseLit(r, 0)
	case "c.ParseDecimal":
		op.M = r.pick(0, 10, 2, 16)
		op.S = parseLit(r, op.M)
	}
}

// addCtxFaults places foreign panics inside context operations, using the
// yields per op measured by a fault-free dry run.
func addCtxFaults(sc *Scenario, yields map[int]int) {
	r := newRng(sc.Seed, 0x465054)
	n := r.pick(0, 0, 1, 1, 2, 3)
	ops := sc.Tasks[0].Ops
	for i := 0; i < n; i++ {
		op := ops[r.intn(len(ops))]
		if !strings.HasPrefix(op.Name, "c.") || ctxArity[op.Name] == 0 {
			continue
		}
		y := yields[op.ID]
		if y < 1 {
			continue
		}
		k := 1 + r.intn(y)
		if r.chance(0.3) && y > 6 {
			k = r.rangeI(3, 8) // just after entering the decimal operation
		}
		sc.Faults = append(sc.Faults, Fault{Kind: r.pickS("panic_error", "panic_string", "panic_runtime"), Task: 0, Op: op.ID, K: k})
	}
}

func prepareCtx(sc *Scenario) *Outcome {
	out := runHist(sc)
	if out.Violation != nil || out.Infra != "" {
		return out
	}
	yields := map[int]int{}
	for i, op := range sc.Tasks[0].Ops {
		yields[op.ID] = out.Results[0][i].Yields
	}
	addCtxFaults(sc, yields)
	return out
}

// ---- reference model ----

type oracleC19 struct {
	cnt  map[string]int
	sc   *Scenario
	w    *World
	prec uint
	mode decimal.RoundingMode
	err  string // "" = no pending error; else the recorded ErrNaN message

	// expectation for the current step
	expNaN   bool
	expMsg   string
	expObs   Obs
	haveExp  bool
	shFailed bool
	modelNaN bool
}

func (o *oracleC19) setWorld(sc *Scenario, w *World) {
	o.sc, o.w = sc, w
	p := sc.Ctx.Prec
	if p == 0 {
		p = decimal.DefaultDecimalPrec
	}
	o.prec, o.mode = p, decimal.RoundingMode(sc.Ctx.Mode)
}
func (o *oracleC19) monitor() func(task, op int, site uint32) string { return nil }
func (o *oracleC19) counters() map[string]int                        { return o.cnt }

func bareName(n string) string { return strings.TrimPrefix(n, "c.") }

func (o *oracleC19) before(c *stepCtx) {
	op := c.op
	o.haveExp = false
	if _, ok := ctxArity[op.Name]; !ok || o.err != "" {
		return
	}
	// bare operation on a fresh receiver carrying the context's attributes,
	// private copies of the operands, clean pool
	sw := &World{V: make([]*decimal.Decimal, len(c.w.V)+1)}
	for _, a := range op.A {
		if sw.V[a] == nil {
			sw.V[a] = new(decimal.Decimal).Copy(c.w.V[a])
		}
	}
	n := len(c.w.V)
	sw.V[n] = new(decimal.Decimal).SetMode(o.mode).SetPrec(o.prec)
	sop := *op
	sop.Name = bareName(op.Name)
	sop.Z = n
	var r Result
	verifrt.Shadow(func() { r = execOp(sw, &sop) })
	if r.Skipped || r.Timeout {
		return
	}
	o.haveExp = true
	// independent notion of "would produce a NaN": the operand-class model of C04
	// (IEEE 754), so that a bare operation that wrongly fails to raise ErrNaN does
	// not hide a missing latch
	o.modelNaN = false
	cl := func(i int) cls { return clsOf(c.pre[op.A[i]]) }
	switch sop.Name {
	case "Add":
		o.modelNaN = sumClass(cl(0), cl(1), o.mode).invalid
	case "Sub":
		y := cl(1)
		y.neg = !y.neg
		o.modelNaN = sumClass(cl(0), y, o.mode).invalid
	case "Mul":
		o.modelNaN = mulClass(cl(0), cl(1)).invalid
	case "Quo":
		o.modelNaN = quoClass(cl(0), cl(1)).invalid
	case "FMA":
		o.modelNaN = fmaClass(cl(0), cl(1), cl(2), o.mode).invalid
	case "Sqrt":
		x := cl(0)
		o.modelNaN = x.neg && x.form != 0
	}
	o.expNaN = r.Panicked && r.IsNaN
	o.expMsg = r.PanicMsg
	o.shFailed = r.Panicked && !r.IsNaN
	o.expObs = observe(sw.V[n])
}

func (o *oracleC19) after(c *stepCtx) *ViolationRec {
	op, res := c.op, c.res
	fail := func(class, f string, a ...interface{}) *ViolationRec {
		return &ViolationRec{Class: class, Oracle: "context-model", Msg: fmt.Sprintf(f, a...) + "\n  " + opDesc(c) +
			fmt.Sprintf("\n    model: prec=%d mode=%d pending=%q", o.prec, o.mode, o.err), Sig: class + ":" + op.Name}
	}
	if !strings.HasPrefix(op.Name, "c.") {
		if res.Panicked && !res.Injected {
			return nil // context-free helper step (SetInf...) - not under test
		}
		return nil
	}
	// operands (everything but the receiver) are never modified
	for i, v := range c.w.V {
		if i == op.Z {
			continue
		}
		if decimal.VerifDigest(0, v) != c.preD[i] {
			return fail("operand-modified", "v%d is not the receiver but changed", i)
		}
	}
	if res.Injected {
		o.cnt["foreign_panics_escaped"]++
		// the operation was cut at an arbitrary statement: the receiver is abandoned
		if op.Z >= 0 {
			c.w.V[op.Z] = new(decimal.Decimal)
		}
		if o.err == "" && o.haveExp && o.expNaN {
			// Ambiguous by construction: the operation itself produced a NaN and
			// the foreign panic was injected inside the recovery path, before or
			// after the NaN was recorded. Both outcomes are legal; synchronise
			// the model with the context (read-only peek at the latch).
			o.cnt["foreign_panic_during_nan_recovery"]++
			if ctxLatched(c.w.Ctx) {
				o.err = o.expMsg
			}
		}
		return nil
	}
	if verifrt.PanicsFired() > c.firedBefore {
		// a foreign panic was injected during this call and did not escape
		kind := "?"
		o.cnt["foreign_panics_swallowed"]++
		return fail("foreign-panic-swallowed", "a panic that is not an ErrNaN (%s) was injected inside the call and did not escape", kind)
	}
	switch op.Name {
	case "c.SetPrec":
		p := uint(op.I)
		if p == 0 {
			p = decimal.DefaultDecimalPrec
		}
		if p > decimal.MaxPrec {
			p = decimal.MaxPrec
		}
		o.prec = p
		if res.Ret != fmt.Sprint(p) {
			return fail("ctx-attr", "context precision is %s, want %d", res.Ret, p)
		}
		return nil
	case "c.SetMode":
		o.mode = decimal.RoundingMode(op.M)
		if res.Ret != fmt.Sprint(o.mode) {
			return fail("ctx-attr", "context mode is %s, want %v", res.Ret, o.mode)
		}
		return nil
	case "c.Err":
		if o.err == "" {
			if res.Ret != "nil" {
				return fail("err-spurious", "Err() returned %q although no NaN was produced since the last Err()", res.Ret)
			}
			o.cnt["err_nil"]++
			return nil
		}
		want := fmt.Sprintf("decimal.ErrNaN nan=true %s", o.err)
		if res.Ret != want {
			return fail("err-wrong", "Err() returned %q, want the first recorded error %q", res.Ret, want)
		}
		o.err = ""
		o.cnt["err_returned_and_rearmed"]++
		return nil
	}
	if res.Panicked {
		return fail("ctx-panic", "context operation panicked with %s: %s", res.PanicTyp, res.PanicMsg)
	}
	if _, ok := ctxArity[op.Name]; !ok {
		// factories: the result carries the context's attributes
		if res.Failed || op.Z < 0 {
			return nil
		}
		if op.Name == "c.NewFloat64" && math.IsNaN(math.Float64frombits(op.FB)) {
			if o.err == "" {
				o.err = "Decimal.SetFloat64(NaN)"
			}
			o.cnt["nan_latched"]++
		}
		post := c.post[op.Z]
		o.cnt["factory_steps"]++
		if post.Prec != o.prec || post.Mode != o.mode {
			if post.Prec == 0 && post.Form != 1 && post.Mode == o.mode {
				return nil
			}
			return fail("factory-attrs", "new Decimal has prec=%d mode=%d, context has prec=%d mode=%d", post.Prec, post.Mode, o.prec, o.mode)
		}
		// value: the argument's exact value rounded once to the context
		var want refValue
		have := false
		switch op.Name {
		case "c.NewInt64":
			b := big.NewInt(op.I)
			want, have = refFinish(b.Sign() < 0, new(big.Int).Abs(b), 0, false, o.prec, int(o.mode)), true
		case "c.NewUint64":
			want, have = refFinish(false, new(big.Int).SetUint64(op.U), 0, false, o.prec, int(o.mode)), true
		case "c.NewInt":
			b := parseBig(op.S)
			want, have = refFinish(b.Sign() < 0, new(big.Int).Abs(b), 0, false, o.prec, int(o.mode)), true
		case "c.NewRat":
			q := parseRat(op.S)
			if q.Sign() != 0 {
				num, den := new(big.Int).Abs(q.Num()), q.Denom()
				want, have = refArith("Quo", []refNum{{form: 1, neg: q.Sign() < 0, D: num}, {form: 1, D: den}}, o.prec, int(o.mode))
			}
		case "c.NewString":
			if l := lexLiteral(op.S, 0); l.ok && !l.inf && !l.zero && l.base == 10 && l.exp2 == 0 && absI64(l.exp10) < 1<<40 {
				want, have = refFinish(l.neg, l.mant, l.exp10, false, o.prec, int(o.mode)), true
			}
		}
		if have {
			o.cnt["factory_values_checked"]++
			got := refValue{Form: post.Form, Neg: post.Neg, Digits: post.Digits, Exp: int64(post.Exp)}
			if got.Form != 1 {
				got.Digits, got.Exp = "", 0
			}
			want.Acc = 0
			if got != want {
				return fail("ctx-not-correctly-rounded", "factory result is not the argument rounded once to prec=%d mode=%d:\n  got      %+v\n  expected %+v", o.prec, o.mode, got, want)
			}
		}
		return nil
	}
	// arithmetic
	if res.Skipped {
		return nil
	}
	if o.err != "" {
		// latched: returns its receiver, nothing observable changes
		o.cnt["noop_while_latched"]++
		if decimal.VerifDigest(0, c.w.V[op.Z]) != c.preD[op.Z] {
			return fail("latched-not-noop", "an error is pending but the operation modified its receiver")
		}
		if res.Ret != "same=true" {
			return fail("latched-not-noop", "an error is pending but the operation did not return its receiver")
		}
		return nil
	}
	if !o.haveExp || o.shFailed {
		return nil
	}
	if res.Ret != "same=true" {
		return fail("ctx-return", "operation did not return its receiver")
	}
	post := c.post[op.Z]
	if o.modelNaN != o.expNaN {
		return fail("nan-not-latched", "IEEE-754 operand classes say this operation is invalid=%v, but the operation raised ErrNaN=%v: the context cannot have recorded the right state", o.modelNaN, o.expNaN)
	}
	if o.expNaN {
		o.err = o.expMsg
		o.cnt["nan_latched"]++
		if msg := canonical(c.w.V[op.Z]); msg != "" {
			return fail("invalid-after-nan", "receiver is not a valid Decimal after the latched NaN: %s", msg)
		}
		return nil
	}
	o.cnt["effective_steps"]++
	if post.String()+post.Digits != o.expObs.String()+o.expObs.Digits {
		return fail("ctx-result", "receiver      = %s\n  bare operation on a fresh receiver with the context's precision and mode = %s", post, o.expObs)
	}
	if post.Prec != o.prec || post.Mode != o.mode {
		return fail("ctx-result", "receiver has prec=%d mode=%d, context has prec=%d mode=%d", post.Prec, post.Mode, o.prec, o.mode)
	}
	// independent reference: the exact result rounded once to the context's
	// precision under the context's mode
	var args []refNum
	for _, a := range op.A {
		args = append(args, refFromObs(c.pre[a]))
	}
	name := bareName(op.Name)
	if want, ok := refArith(name, args, o.prec, int(o.mode)); ok {
		o.cnt["checked_against_exact_reference"]++
		got := refValue{Form: post.Form, Neg: post.Neg, Digits: post.Digits, Exp: int64(post.Exp), Acc: int(post.Acc)}
		if got.Form != 1 {
			got.Digits, got.Exp = "", 0
		}
		// the property speaks about the value ("correctly rounded"); truthfulness of
		// Acc() is C02's subject and is not asserted here
		got.Acc, want.Acc = 0, 0
		if got != want {
			v := fail("ctx-not-correctly-rounded", "result is not the exact result rounded once to prec=%d mode=%d:\n  got      %+v\n  expected %+v", o.prec, o.mode, got, want)
			if name == "Sqrt" && got.Form == 1 && want.Form == 1 &&
				withinUlps(got.Digits, got.Exp, want.Digits, want.Exp-int64(len(want.Digits)), o.prec, 1) {
				// a neighbour (one unit in the last place) of the correctly rounded root
				v.Sig += ":neighbour"
			}
			if name == "FMA" {
				// intermediate product outside the exponent range while the sum is inside
				pe := int64(c.pre[op.A[0]].Exp) + int64(c.pre[op.A[1]].Exp)
				if pe > math.MaxInt32 || pe-1 < math.MinInt32 {
					v.Sig += ":product-exponent-out-of-range"
				}
			}
			return v
		}
	}
	return nil
}

package main

import (
	"encoding/json"
	"fmt"
	"io"
	"math"
	"math/big"
	"strings"
	"unicode/utf8"

	"github.com/db47h/decimal"
	dctx "github.com/db47h/decimal/context"
)

// ---------------------------------------------------------------------------
// C12 world: a producer writes tokens to a simulated stream / string; consumers
// read them through every parsing entry point, under read faults.

// simRuneScanner implements io.RuneScanner over a faultyReader-like source.
type simRuneScanner struct {
	data   []byte
	off    int
	last   int // size of the last rune read, 0 if none
	faults []ReadFault
	fired  map[string]int
}

func (s *simRuneScanner) ReadRune() (rune, int, error) {
	for i := range s.faults {
		ft := &s.faults[i]
		if ft.At != s.off || ft.Kind == "done" {
			continue
		}
		k := ft.Kind
		ft.Kind = "done"
		if s.fired != nil {
			s.fired["fault_read_"+k]++
		}
		switch k {
		case "eof":
			s.data = s.data[:s.off]
		case "err", "err_data", "zero":
			s.data = s.data[:s.off]
			s.last = 0
			return 0, 0, errInjected
		case "uerr":
			s.data = s.data[:s.off]
			s.last = 0
			return 0, 0, io.ErrUnexpectedEOF
		}
	}
	if s.off >= len(s.data) {
		s.last = 0
		return 0, 0, io.EOF
	}
	r, n := utf8.DecodeRune(s.data[s.off:])
	s.off += n
	s.last = n
	return r, n, nil
}

func (s *simRuneScanner) UnreadRune() error {
	if s.last == 0 {
		return fmt.Errorf("simRuneScanner: UnreadRune without ReadRune")
	}
	s.off -= s.last
	s.last = 0
	return nil
}

func (s *simRuneScanner) Read(p []byte) (int, error) {
	return 0, fmt.Errorf("simRuneScanner: Read must not be used when ReadRune is available")
}

// parseOutcome is the observable result of one parsing call.
type parseOutcome struct {
	panicMsg string
	ok       bool // call reported success
	nilOK    bool // on failure: returned value is nil / false as documented
	base     int
	z        Obs
}

func (p parseOutcome) key() string {
	if p.panicMsg != "" {
		return "panic:" + p.panicMsg
	}
	if !p.ok {
		return "rejected"
	}
	return fmt.Sprintf("ok base=%d %s|%s", p.base, p.z, p.z.Digits)
}

func newRecv(prec uint32, mode uint8) *decimal.Decimal {
	z := new(decimal.Decimal).SetMode(decimal.RoundingMode(mode))
	if prec != 0 {
		z.SetPrec(uint(prec))
	}
	return z
}

// failingLiterals are rejected only after their (long) mantissa was scanned.
var failingLiterals = []string{
	"123456789012345678901234567890e+",
	"98765432109876543210987654321098765432109876543210.5e",
	"1234567890123456789012345678901234567890_",
	"0.00000000000000000000000012345678901234567890123456789e99999999999999999999",
	"0x123456789abcdef0123456789abcdef0123456789p",
	"777777777777777777777777777777777777777777777777777777777777 ",
}

// ladenRecv returns a receiver with the same precision and mode as newRecv
// gives, but with a history: it held a long negative value with spare capacity
// and its last operation was inexact.
func ladenRecv(prec uint32, mode uint8) *decimal.Decimal {
	z := new(decimal.Decimal).SetPrec(120)
	three := new(decimal.Decimal).SetInt64(-3)
	z.Quo(new(decimal.Decimal).SetInt64(1), three) // -0.333... inexact
	z.SetMode(decimal.RoundingMode(mode))
	if prec != 0 {
		z.SetPrec(uint(prec))
		if z.Acc() == decimal.Exact {
			z.Quo(z, three)
		}
	} else {
		z.SetPrec(0) // zero value of the sign it had, accuracy not Exact
	}
	return z
}

// parseVia runs one entry point on text.
func parseVia(entry, text string, base int, prec uint32, mode uint8, chunk int, faults []ReadFault, fired map[string]int) (out parseOutcome) {
	z := newRecv(prec, mode)
	if strings.HasSuffix(entry, "+laden") {
		entry = strings.TrimSuffix(entry, "+laden")
		z = ladenRecv(prec, mode)
	}
	if strings.HasSuffix(entry, "+lowfirst") {
		// the same literal was parsed at a much lower precision just before, by
		// somebody else: whatever the library remembered from that call (a table
		// entry, a memoised power) must not be served to this one
		entry = strings.TrimSuffix(entry, "+lowfirst")
		lp := uint32(1 + len(text)%5)
		_, _, _ = newRecv(lp, uint8(len(text)%6)).Parse(text, base)
	}
	if strings.HasSuffix(entry, "+failed") {
		// a receiver whose previous call was a parse that failed late, after many
		// digits had been consumed: whatever that call left behind (partial
		// mantissa, scratch buffers, form) must not influence this one
		entry = strings.TrimSuffix(entry, "+failed")
		bad := failingLiterals[len(text)%len(failingLiterals)]
		if d, _, err := z.Parse(bad, 0); err == nil || d != nil {
			out.panicMsg = fmt.Sprintf("set-up: Parse(%q, 0) did not fail", bad)
			return
		}
	}
	defer func() {
		if r := recover(); r != nil {
			out.panicMsg = fmt.Sprint(r)
			if len(out.panicMsg) > 160 {
				out.panicMsg = out.panicMsg[:160]
			}
		}
		if out.ok {
			out.z = observe(z)
		}
	}()
	out.nilOK = true
	switch entry {
	case "Parse":
		d, b, err := z.Parse(text, base)
		out.ok, out.base = err == nil, b
		if err != nil {
			out.nilOK = d == nil
		} else if d != z {
			out.panicMsg = "Parse succeeded but did not return its receiver"
		}
	case "SetString":
		d, ok := z.SetString(text)
		out.ok, out.base = ok, 0
		if !ok {
			out.nilOK = d == nil
		}
	case "ParseDecimal":
		d, b, err := decimal.ParseDecimal(text, base, uint(prec), decimal.RoundingMode(mode))
		out.ok, out.base = err == nil, b
		if err != nil {
			out.nilOK = d == nil
		} else {
			z = d
		}
	case "ParseDecimal+hugeprec":
		// a precision argument above MaxPrec is documented (SetPrec) to mean MaxPrec
		huge := uint(decimal.MaxPrec) + []uint{1, 6, 1 << 31, 3 << 32}[len(text)%4]
		d, b, err := decimal.ParseDecimal(text, base, huge, decimal.RoundingMode(mode))
		out.ok, out.base = err == nil, b
		if err != nil {
			out.nilOK = d == nil
		} else {
			z = d
		}
	case "ctx.NewString":
		// package context: "a floating-point number of the same format as accepted
		// by Parse with base argument 0 ... d's precision and rounding mode are set
		// to c's"
		c := dctx.New(uint(prec), decimal.RoundingMode(mode))
		d, ok := c.NewString(text)
		out.ok, out.base = ok, 0
		if !ok {
			out.nilOK = d == nil
		} else {
			z = d
		}
	case "ctx.ParseDecimal":
		c := dctx.New(uint(prec), decimal.RoundingMode(mode))
		d, b, err := c.ParseDecimal(text, base)
		out.ok, out.base = err == nil, b
		if err != nil {
			out.nilOK = d == nil
		} else {
			z = d
		}
	case "UnmarshalText":
		err := z.UnmarshalText([]byte(text))
		out.ok = err == nil
	case "UnmarshalJSON":
		q, _ := json.Marshal(text)
		err := json.Unmarshal(q, z)
		out.ok = err == nil
	case "Sscan":
		n, err := fmt.Sscan(text, z)
		out.ok = err == nil && n == 1
	case "Fscan":
		n, err := fmt.Fscan(&faultyReader{data: []byte(text), chunk: chunk, faults: append([]ReadFault(nil), faults...), fired: fired}, z)
		out.ok = err == nil && n == 1
	case "Fscanf":
		n, err := fmt.Fscanf(&faultyReader{data: []byte(text), chunk: chunk, faults: append([]ReadFault(nil), faults...), fired: fired}, "%g", z)
		out.ok = err == nil && n == 1
	case "Fscan-rs":
		n, err := fmt.Fscan(&simRuneScanner{data: []byte(text), faults: append([]ReadFault(nil), faults...), fired: fired}, z)
		out.ok = err == nil && n == 1
	default:
		panic("harness: unknown entry " + entry)
	}
	return
}

type tokViol struct {
	class, msg string
	Bytes      *BytesSpec
}

// multiToken checks what the scanning entry points leave behind for the next
// reader: a token that ends at the end of the input, two tokens in one call,
// one token for two receivers, and the position of a rune scanner after the
// scan (compared with math/big's Float scanning the same bytes).
func multiToken(tok string, ref0 parseOutcome, prec uint32, mode uint8, cnt map[string]int) (v *tokViol) {
	want := strings.Replace(ref0.key(), fmt.Sprintf("base=%d ", ref0.base), "base=0 ", 1)
	keyOfD := func(z *decimal.Decimal) string { return parseOutcome{ok: true, z: observe(z)}.key() }
	bsFor := func(entry, text string) *BytesSpec { return &BytesSpec{Entry: "multitoken", Text: tok} }
	defer func() {
		if r := recover(); r != nil {
			v = &tokViol{"scan-panic", fmt.Sprintf("scanning %q panicked: %v", tok, r), bsFor("Sscan", tok)}
		}
	}()
	// (a) the token ends exactly at the end of the input
	for _, e := range []string{"Sscan", "Fscan", "Fscan-rs"} {
		got := parseVia(e, tok, 0, prec, mode, 0, nil, nil)
		if got.key() != want {
			return &tokViol{"scan-differs-from-parse", fmt.Sprintf("%s over %q (token ends at the end of the input) = %s\n  Parse(%q, 0) = %s", e, tok, got.key(), tok, want), bsFor(e, tok)}
		}
	}
	// (b) two tokens, two receivers
	{
		a, b := newRecv(prec, mode), newRecv(prec, mode)
		n, err := fmt.Sscan(tok+" "+tok, a, b)
		if n != 2 || err != nil || keyOfD(a) != want || keyOfD(b) != want {
			return &tokViol{"scan-sequence", fmt.Sprintf("Sscan(%q, &a, &b): n=%d err=%v a=%s b=%s\n  Parse(%q, 0) = %s", tok+" "+tok, n, err, keyOfD(a), keyOfD(b), tok, want), bsFor("Sscan2", tok)}
		}
	}
	// (c) one token, two receivers: the second scan must find nothing
	{
		a, b := newRecv(prec, mode), newRecv(prec, mode)
		n, err := fmt.Sscan(tok, a, b)
		if n != 1 || err == nil {
			return &tokViol{"scan-sequence", fmt.Sprintf("Sscan(%q, &a, &b) with a single token: n=%d err=%v b=%s (want n=1 and an error)", tok, n, err, keyOfD(b)), bsFor("Sscan1of2", tok)}
		}
	}
	// (d) where a rune scanner stands after the scan, next to math/big
	for _, tail := range []string{",7", " 7", "é", "e", "x"} {
		text := tok + tail
		sd := &simRuneScanner{data: []byte(text)}
		nd, errd := fmt.Fscan(sd, newRecv(prec, mode))
		sb := &simRuneScanner{data: []byte(text)}
		nb, errb := fmt.Fscan(sb, new(big.Float))
		if (errb == nil) != (errd == nil) || nb != nd {
			continue // acceptance differences are the grammar check's business
		}
		if errb == nil && sd.off != sb.off {
			return &tokViol{"scan-sequence", fmt.Sprintf("Fscan over a rune scanner holding %q: the Decimal scan leaves the reader at offset %d, math/big's Float at offset %d", text, sd.off, sb.off), bsFor("Fscan-rs-pos", text)}
		}
		cnt["scan_reader_positions_checked"]++
	}
	cnt["scan_sequences_checked"]++
	return nil
}

// bigAccepts asks math/big's parser (the reference model of the grammar).
func bigAccepts(s string, base int) (ok bool, b int, panicked bool) {
	defer func() {
		if r := recover(); r != nil {
			panicked = true
		}
	}()
	_, b, err := new(big.Float).Parse(s, base)
	return err == nil, b, false
}

// bigScans reports whether fmt.Sscan accepts text into a *big.Float. known is
// false when the text carries an exponent large enough for the two exponent
// ranges to matter (long digit runs after an exponent letter).
func bigScans(entry, text string, chunk int) (ok, known bool) {
	run := 0
	for i := 0; i < len(text); i++ {
		if text[i] >= '0' && text[i] <= '9' || text[i] == '_' {
			run++
			if run > 8 {
				// long digit run: could be an exponent beyond big.Float's range
				for j := 0; j < i; j++ {
					if strings.ContainsRune("eEpP", rune(text[j])) {
						return false, false
					}
				}
			}
		} else {
			run = 0
		}
	}
	defer func() {
		if r := recover(); r != nil {
			ok, known = false, false
		}
	}()
	var f big.Float
	var n int
	var err error
	switch entry {
	case "Fscan":
		n, err = fmt.Fscan(&faultyReader{data: []byte(text), chunk: chunk}, &f)
	case "Fscan-rs":
		n, err = fmt.Fscan(&simRuneScanner{data: []byte(text)}, &f)
	default:
		n, err = fmt.Sscan(text, &f)
	}
	return err == nil && n == 1, true
}

const expRule = 500000000

// checkString applies oracles 1-3 to one (string, base, receiver) through the
// string entry points. Returns class, message.
func checkString(text string, base int, prec uint32, mode uint8, cnt map[string]int) (string, string) {
	l := lexLiteral(text, base)
	res := parseVia("Parse", text, base, prec, mode, 0, nil, nil)
	cnt["parses"]++
	if res.panicMsg != "" {
		return "parse-panic", fmt.Sprintf("Parse(%q, %d) panicked: %s", text, base, res.panicMsg)
	}
	if !res.ok && !res.nilOK {
		return "reject-not-nil", fmt.Sprintf("Parse(%q, %d) reported an error but returned a non-nil Decimal", text, base)
	}
	// grammar: math/big is the reference where both accept the exponent range
	inRule := !l.ok || l.inf || l.zero || (absI64(l.exp10) <= expRule && absI64(l.exp2) <= expRule && absI64(l.exp10+l.exp2) <= expRule)
	if l.expErr {
		inRule = true
	}
	bok, bb, bp := bigAccepts(text, base)
	if bp {
		cnt["bigfloat_parse_panicked"]++
	} else if inRule {
		cnt["grammar_checked_against_mathbig"]++
		if bok != l.ok {
			cnt["oracle_lexer_disagrees_with_mathbig"]++
		}
		if bok != res.ok {
			return "grammar", fmt.Sprintf("Parse(%q, %d): decimal accepted=%v, math/big Float.Parse accepted=%v", text, base, res.ok, bok)
		}
		if bok && !l.inf && bb != res.base {
			return "grammar", fmt.Sprintf("Parse(%q, %d): detected base %d, math/big detects %d", text, base, res.base, bb)
		}
	} else {
		// outside: the property's own rule - reject iff the normalised exponent leaves int32
		if l.ok && !l.zero && !l.inf {
			D, E := "", int64(0)
			if absI64(l.exp2) <= 20000 && absI64(l.exp10) < math.MaxInt64/4 {
				D, E = exactDecimal(l.mant, l.exp2, l.exp10)
				ne := int64(len(strings.TrimLeft(D, "0"))) + E
				want := ne >= math.MinInt32 && ne <= math.MaxInt32
				cnt["range_rule_checked"]++
				if l.base == 10 && l.exp2 == 0 && want != res.ok {
					return "range", fmt.Sprintf("Parse(%q, %d): accepted=%v but the normalised exponent %d is %s the int32 range", text, base, res.ok, ne, map[bool]string{true: "inside", false: "outside"}[want])
				}
			}
		}
	}
	if !res.ok || !l.ok {
		return "", ""
	}
	// never wrong data
	p := uint(prec)
	if p == 0 {
		p = decimal.DefaultDecimalPrec
	}
	if l.inf {
		if res.z.Form != 2 || res.z.Neg != l.neg {
			return "value", fmt.Sprintf("Parse(%q): got %s", text, res.z)
		}
		return "", ""
	}
	if res.z.Prec != p && !(l.zero && false) {
		return "value-prec", fmt.Sprintf("Parse(%q, %d) into prec=%d: result precision %d, want %d", text, base, prec, res.z.Prec, p)
	}
	if res.z.Mode != decimal.RoundingMode(mode) {
		return "value-mode", fmt.Sprintf("Parse(%q) changed the rounding mode to %d", text, res.z.Mode)
	}
	if l.zero {
		if res.z.Form != 0 || res.z.Neg != l.neg || res.z.Acc != 0 {
			return "value", fmt.Sprintf("Parse(%q): zero literal gave %s", text, res.z)
		}
		cnt["values_checked_exact"]++
		return "", ""
	}
	if absI64(l.exp2) > 20000 || absI64(l.exp10) > math.MaxInt64/4 {
		cnt["values_not_checked_huge_binary_exponent"]++
		return "", ""
	}
	D, E := exactDecimal(l.mant, l.exp2, l.exp10)
	if l.base == 10 && l.exp2 == 0 {
		want := refRound(l.neg, D, E, p, int(mode))
		cnt["values_checked_exact"]++
		got := refValue{Form: res.z.Form, Neg: res.z.Neg, Digits: res.z.Digits, Exp: int64(res.z.Exp), Acc: int(res.z.Acc)}
		if got.Form != 1 {
			got.Digits, got.Exp = "", 0
		}
		if got != want {
			return "value", fmt.Sprintf("Parse(%q, %d) into prec=%d mode=%d:\n  got      %+v\n  expected %+v (exact value rounded once)", text, base, prec, mode, got, want)
		}
		return "", ""
	}
	// base 2/8/16 or binary exponent: exact when representable, else within one ulp
	tz := strings.TrimRight(strings.TrimLeft(D, "0"), "0")
	if res.z.Form != 1 {
		ne := int64(len(strings.TrimLeft(D, "0"))) + E
		if ne > math.MaxInt32 || ne < math.MinInt32 {
			return "", ""
		}
		return "value", fmt.Sprintf("Parse(%q, %d): finite literal gave %s", text, base, res.z)
	}
	if res.z.Neg != l.neg {
		return "value", fmt.Sprintf("Parse(%q, %d): wrong sign", text, base)
	}
	// ulps are measured at the larger of the two exponents (a result that was
	// carried into the next decade is judged by its own ulp)
	pe := p
	if ge := int64(res.z.Exp); ge > int64(len(strings.TrimLeft(D, "0")))+E {
		pe = p - 1
		if p == 1 {
			pe = 0
		}
	}
	near := withinUlps(res.z.Digits, int64(res.z.Exp), D, E, pe, 2)
	// The recorded finding (2**k rounded before the division) can only arise when
	// 2**|exp2| has more digits than the working precision prec+19; otherwise the
	// power of two is exact and any deviation is something else.
	if pow2Digits := int64(float64(absI64(l.exp2))*0.30103) + 1; pow2Digits <= int64(p)+wordDigits {
		near = false
	}
	if uint(len(tz)) <= p {
		cnt["values_checked_exact_nondecimal"]++
		want := refRound(l.neg, D, E, p, int(mode))
		if res.z.Digits != want.Digits || int64(res.z.Exp) != want.Exp {
			class := "value"
			if near {
				class = "value-nondecimal-unfaithful"
			}
			return class, fmt.Sprintf("Parse(%q, %d) into prec=%d mode=%d: representable value not stored exactly:\n  got      0.%se%d\n  expected 0.%se%d", text, base, prec, mode, res.z.Digits, res.z.Exp, want.Digits, want.Exp)
		}
		return "", ""
	}
	cnt["values_checked_1ulp"]++
	if !within1ulp(res.z.Digits, int64(res.z.Exp), D, E, p) {
		// distinguish "one ulp plus an epsilon" (unfaithful by the error of the
		// rounded power of two) from grossly wrong values
		if near {
			return "value-nondecimal-unfaithful", fmt.Sprintf("Parse(%q, %d) into prec=%d mode=%d: result 0.%se%d is more than one unit in the last place (but at most two) away from the exact value", text, base, prec, mode, res.z.Digits, res.z.Exp)
		}
		return "value", fmt.Sprintf("Parse(%q, %d) into prec=%d: result 0.%se%d is more than two units in the last place away from the exact value", text, base, prec, res.z.Digits, res.z.Exp)
	}
	return "", ""
}

func absI64(x int64) int64 {
	if x < 0 {
		if x == math.MinInt64 {
			return math.MaxInt64
		}
		return -x
	}
	return x
}

func genParse(seed uint64, tier string) *Scenario {
	r := newRng(seed, 0x50415253)
	sc := &Scenario{Property: "C12", World: "parse", Seed: seed, Tier: tier}
	base := r.pick(0, 0, 0, 10, 10, 2, 8, 16)
	bs := &BytesSpec{Entry: "enum", Base: base, RecvPrec: r.genPrec(r.pick(1, 2, 3), true), RecvMode: uint8(r.intn(6))}
	bs.Text = genToken(r, base, tier)
	bs.Chunk = r.pick(0, 1, 2, 3, 5, 16)
	if !r.chance(0.12) {
		bs.Entry = "strings" // string entry points and fault-free streams only; no read-fault enumeration
	}
	sc.Bytes = bs
	return sc
}

// genToken draws a literal: structured, mutated, or arbitrary bytes.
func genToken(r rng, base int, tier string) string {
	if r.chance(0.04) {
		// the Inf family and its near misses
		pre := []string{"", "+", "-", "1", "x", " ", "_", "\xff", "++", "0", "."}[r.intn(11)]
		body := []string{"Inf", "inf", "INF", "iNf", "Infinity", "infinity", "In", "nf", "Inff", "inf ", "Inf0", "I_nf"}[r.intn(12)]
		return pre + body
	}
	switch r.intn(10) {
	case 0:
		// arbitrary bytes
		n := r.rangeI(0, 12)
		b := make([]byte, n)
		alphabet := "0123456789abcdefxXpPeE+-._ \x00\xff\xc3\xa9Iinf"
		if r.chance(0.3) {
			// well-formed multi-byte runes whose low byte is a digit, '.', 'e', 'p', '_', '-', 'x'
			rs := []rune("\u0130\u0131\u0135\u0139\u012e\u0165\u0170\u015f\u012d\u0178\u00e9")
			var sb strings.Builder
			for i, n := 0, r.rangeI(1, 8); i < n; i++ {
				if r.chance(0.35) {
					sb.WriteRune(rs[r.intn(len(rs))])
				} else {
					sb.WriteByte("0123456789.e-"[r.intn(13)])
				}
			}
			return sb.String()
		}
		for i := range b {
			b[i] = alphabet[r.intn(len(alphabet))]
		}
		return string(b)
	case 1:
		return parseLit(r, base)
	case 2:
		// mutated structured literal
		s := []byte(structuredLit(r, base, 40))
		if len(s) > 0 {
			switch r.intn(4) {
			case 0:
				s[r.intn(len(s))] = "_.eEpP+-x0 9"[r.intn(12)]
			case 1:
				i := r.intn(len(s) + 1)
				s = append(s[:i], append([]byte{"_.eEpP+-x0 9"[r.intn(12)]}, s[i:]...)...)
			case 2:
				i := r.intn(len(s))
				s = append(s[:i], s[i+1:]...)
			case 3:
				s = s[:r.intn(len(s))]
			}
		}
		return string(s)
	}
	max := 60
	if r.chance(0.15) {
		max = 600
	}
	if tier == "thorough" && r.chance(0.05) {
		max = 4000
	}
	return structuredLit(r, base, max)
}

// structuredLit draws a well-formed literal for the base (0: any prefix).
func structuredLit(r rng, base, maxDigits int) string {
	var b strings.Builder
	if r.chance(0.35) {
		b.WriteByte("+-"[r.intn(2)])
	}
	bb := base
	sep := base == 0 && r.chance(0.3)
	if base == 0 {
		bb = r.pick(10, 10, 10, 2, 8, 16)
		switch bb {
		case 2:
			b.WriteString(r.pickS("0b", "0B"))
		case 8:
			b.WriteString(r.pickS("0o", "0O"))
		case 16:
			b.WriteString(r.pickS("0x", "0X"))
		}
		if bb != 10 && sep && r.chance(0.3) {
			b.WriteByte('_')
		}
	}
	n := 1 + r.intn(maxDigits)
	dot := -1
	if r.chance(0.6) {
		dot = r.intn(n + 1)
	}
	if r.chance(0.06) {
		// whole words of leading zeros
		b.WriteString(strings.Repeat("0", r.pick(18, 19, 20, 37, 38, 39, 57)))
	}
	digs := "0123456789abcdef"
	style := r.intn(5)
	for i := 0; i < n; i++ {
		if i == dot {
			b.WriteByte('.')
		}
		var d int
		switch style {
		case 0:
			d = 0
			if i == n-1 || i == 0 {
				d = 1 + r.intn(bb-1)
			}
		case 1:
			d = bb - 1
		default:
			d = r.intn(bb)
		}
		c := digs[d]
		if bb == 16 && r.chance(0.3) && c >= 'a' {
			c -= 32
		}
		b.WriteByte(c)
		if sep && i < n-1 && i+1 != dot && r.chance(0.2) {
			b.WriteByte('_')
		}
	}
	if dot == n && n > 0 {
		b.WriteByte('.')
	}
	if r.chance(0.45) {
		ech := "eE"
		if bb == 16 || r.chance(0.2) {
			ech = "pP"
		}
		b.WriteByte(ech[r.intn(2)])
		if r.chance(0.5) {
			b.WriteByte("+-"[r.intn(2)])
		}
		var e int64
		switch r.intn(10) {
		case 0:
			e = int64(r.pick(2147483647, 2147483646, 2147483648, 2147483600)) - int64(r.intn(n+2))
		case 1:
			e = int64(r.pick(300000000, 499999999, 500000001, 1000000000))
		case 2:
			e = int64(r.pick(99999, 5000, 1234))
		case 3:
			e = r.Int64() >> uint(r.intn(40))
		default:
			e = int64(r.pick(0, 1, 2, 5, 19, 38, 57, 308))
		}
		s := fmt.Sprint(e)
		if sep && len(s) > 2 && r.chance(0.3) {
			s = s[:1] + "_" + s[1:]
		}
		b.WriteString(s)
	}
	return b.String()
}

var stringEntries = []string{"Parse", "SetString", "ParseDecimal", "UnmarshalText", "UnmarshalJSON", "ctx.NewString", "ctx.ParseDecimal"}
var streamEntries = []string{"Fscan", "Fscanf", "Fscan-rs"}

// runParse executes a C12 scenario. Entry "enum": all entry points, all
// chunkings, every read-fault position of the token. Otherwise: the single call
// described by the scenario (replay form).
func runParse(sc *Scenario) *Outcome {
	out := &Outcome{Counters: map[string]int{}}
	bs := sc.Bytes
	cnt := out.Counters
	keys := map[uint64]struct{}{}
	viol := func(class, msg string, repro *BytesSpec) *Outcome {
		out.Violation = &ViolationRec{Property: "C12", Class: class, Oracle: "parse", OpName: repro.Entry, Msg: msg, Sig: class + ":" + repro.Entry}
		out.Repro = &Scenario{Property: "C12", World: "parse", Seed: sc.Seed, Bytes: repro}
		return out
	}
	finish := func() *Outcome {
		for k := range keys {
			out.Keys = append(out.Keys, k)
		}
		out.Nontrivial = len(keys) > 0
		for _, k := range out.Keys {
			out.Trace += k // order independent
		}
		out.Trace ^= uint64(out.Evals) << 40
		return out
	}
	text, base, prec, mode := bs.Text, bs.Base, bs.RecvPrec, bs.RecvMode
	one := func(entry string, t string, b int, chunk int, faults []ReadFault) parseOutcome {
		out.Evals++
		k := keyOf([]byte(entry+"\x00"+t+fmt.Sprint(b, chunk, faults)), prec, mode, false)
		keys[k] = struct{}{}
		return parseVia(entry, t, b, prec, mode, chunk, faults, cnt)
	}

	single := bs.Entry != "enum" && bs.Entry != "strings"
	entries := stringEntries
	if single {
		entries = nil
		for _, e := range stringEntries {
			if e == bs.Entry {
				entries = []string{e}
			}
		}
	}

	// ---- string entry points: oracles 1-3 ----
	if !single || bs.Entry == "Parse" {
		out.Evals++
		if class, msg := checkString(text, base, prec, mode, cnt); class != "" {
			return viol(class, msg, &BytesSpec{Entry: "Parse", Text: text, Base: base, RecvPrec: prec, RecvMode: mode})
		}
	}
	ref := parseVia("Parse", text, base, prec, mode, 0, nil, nil)
	if !single || bs.Entry == "Parse+laden" || bs.Entry == "Parse+failed" || bs.Entry == "Parse+lowfirst" || bs.Entry == "ParseDecimal+hugeprec" {
		// the outcome must not depend on what the receiver held before (value,
		// sign, accuracy, buffer): same call into a history-laden receiver
		lad := one("Parse+laden", text, base, 0, nil)
		if lad.panicMsg != "" {
			return viol("parse-panic", fmt.Sprintf("Parse(%q, %d) into a used receiver panicked: %s", text, base, lad.panicMsg), &BytesSpec{Entry: "Parse+laden", Text: text, Base: base, RecvPrec: prec, RecvMode: mode})
		}
		if lad.ok != ref.ok || (ref.ok && lad.key() != ref.key()) {
			return viol("depends-on-receiver-history", fmt.Sprintf("Parse(%q, %d) into a fresh receiver  = %s\n  into a receiver that held an inexact negative value = %s", text, base, ref.key(), lad.key()),
				&BytesSpec{Entry: "Parse+laden", Text: text, Base: base, RecvPrec: prec, RecvMode: mode})
		}
		cnt["laden_receiver_agreements"]++
		if ref.ok {
			fl := one("Parse+failed", text, base, 0, nil)
			if fl.panicMsg != "" {
				return viol("parse-panic", fmt.Sprintf("Parse(%q, %d) into a receiver whose previous Parse failed: %s", text, base, fl.panicMsg), &BytesSpec{Entry: "Parse+failed", Text: text, Base: base, RecvPrec: prec, RecvMode: mode})
			}
			if !fl.ok || fl.key() != ref.key() {
				return viol("depends-on-receiver-history", fmt.Sprintf("Parse(%q, %d) into a fresh receiver  = %s\n  into a receiver whose previous Parse failed after a long mantissa = %s", text, base, ref.key(), fl.key()),
					&BytesSpec{Entry: "Parse+failed", Text: text, Base: base, RecvPrec: prec, RecvMode: mode})
			}
			cnt["after_failed_parse_agreements"]++
			lf := one("Parse+lowfirst", text, base, 0, nil)
			if lf.panicMsg != "" {
				return viol("parse-panic", fmt.Sprintf("Parse(%q, %d) after the same literal was parsed at a low precision: %s", text, base, lf.panicMsg), &BytesSpec{Entry: "Parse+lowfirst", Text: text, Base: base, RecvPrec: prec, RecvMode: mode})
			}
			if !lf.ok || lf.key() != ref.key() {
				return viol("depends-on-process-history", fmt.Sprintf("Parse(%q, %d) = %s\n  the same call after the literal had been parsed into another Decimal at a low precision = %s", text, base, ref.key(), lf.key()),
					&BytesSpec{Entry: "Parse+lowfirst", Text: text, Base: base, RecvPrec: prec, RecvMode: mode})
			}
			cnt["after_low_precision_parse_agreements"]++
			if ^uint(0)>>32 != 0 && ref.base == 10 && !strings.ContainsAny(text, "pP") && len(text) < 400 {
				// precision arguments beyond MaxPrec (64-bit uint): same as MaxPrec. Base-10
				// literals only: their cost does not grow with the precision.
				hp := one("ParseDecimal+hugeprec", text, base, 0, nil)
				mp := parseVia("ParseDecimal", text, base, decimal.MaxPrec, mode, 0, nil, nil)
				if hp.panicMsg != "" || hp.key() != mp.key() {
					return viol("entry-points-disagree", fmt.Sprintf("ParseDecimal(%q, %d, prec > MaxPrec) = %s %s\n  ParseDecimal(%q, %d, MaxPrec) = %s", text, base, hp.key(), hp.panicMsg, text, base, mp.key()),
						&BytesSpec{Entry: "ParseDecimal+hugeprec", Text: text, Base: base, RecvPrec: prec, RecvMode: mode})
				}
				cnt["huge_precision_arguments_checked"]++
			}
		}
	}
	ref0 := ref
	if base != 0 {
		ref0 = parseVia("Parse", text, 0, prec, mode, 0, nil, nil)
	}
	for _, e := range entries {
		if e == "Parse" || (e == "UnmarshalJSON" && !utf8.ValidString(text)) {
			continue
		}
		b := base
		want := ref
		if e != "ParseDecimal" && e != "ctx.ParseDecimal" {
			b, want = 0, ref0
		}
		if strings.HasPrefix(e, "ctx.") && prec == 0 {
			// a Context never has precision 0 (New turns it into DefaultDecimalPrec):
			// the reference is Parse into a receiver of that precision
			want = parseVia("Parse", text, b, decimal.DefaultDecimalPrec, mode, 0, nil, nil)
		}
		got := one(e, text, b, 0, nil)
		if got.panicMsg != "" {
			return viol("parse-panic", fmt.Sprintf("%s(%q) panicked: %s", e, text, got.panicMsg), &BytesSpec{Entry: e, Text: text, Base: b, RecvPrec: prec, RecvMode: mode})
		}
		if !got.ok && !got.nilOK {
			return viol("reject-not-nil", fmt.Sprintf("%s(%q) failed but returned a non-nil result", e, text), &BytesSpec{Entry: e, Text: text, Base: b, RecvPrec: prec, RecvMode: mode})
		}
		wk, gk := want.key(), got.key()
		if e != "ParseDecimal" && e != "ctx.ParseDecimal" && e != "Parse" {
			// these do not report the base
			wk = strings.Replace(wk, fmt.Sprintf("base=%d ", want.base), "base=0 ", 1)
			gk = strings.Replace(gk, fmt.Sprintf("base=%d ", got.base), "base=0 ", 1)
		}
		if wk != gk {
			return viol("entry-points-disagree", fmt.Sprintf("%s(%q) = %s\n  Parse(%q, %d) = %s", e, text, gk, text, b, wk), &BytesSpec{Entry: e, Text: text, Base: b, RecvPrec: prec, RecvMode: mode})
		}
		cnt["entry_point_agreements"]++
	}

	// ---- stream entry points ----
	sentries := streamEntries
	if single {
		sentries = nil
		for _, e := range streamEntries {
			if e == bs.Entry {
				sentries = []string{e}
			}
		}
		if bs.Entry == "Sscan" {
			sentries = []string{"Sscan"}
		}
	}
	if len(sentries) == 0 && bs.Entry != "multitoken" {
		return finish()
	}
	tok := strings.TrimSpace(text)
	validTok := tok != "" && !strings.ContainsAny(tok, " \t\r\n") && ref0.ok && ref0.z.Form != 2 && utf8.ValidString(tok)
	stream := text + " "
	if single {
		stream = text
	}
	if validTok && (!single || bs.Entry == "multitoken") {
		if v := multiToken(tok, ref0, prec, mode, cnt); v != nil {
			v.Bytes.RecvPrec, v.Bytes.RecvMode = prec, mode
			return viol(v.class, v.msg, v.Bytes)
		}
	}
	for _, e := range sentries {
		chunks := []int{0, 1, 2, 3, 7}
		if single {
			chunks = []int{bs.Chunk}
		}
		if e == "Fscan-rs" || e == "Sscan" {
			chunks = chunks[:1]
		}
		// fault-free: delivery independence and agreement with Parse for valid tokens
		var base0 *parseOutcome
		if !single || len(bs.Read) == 0 {
			for _, ch := range chunks {
				got := one(e, stream, 0, ch, nil)
				rb := &BytesSpec{Entry: e, Text: stream, RecvPrec: prec, RecvMode: mode, Chunk: ch}
				if got.panicMsg != "" {
					return viol("scan-panic", fmt.Sprintf("%s over %q (chunk %d) panicked: %s", e, stream, ch, got.panicMsg), rb)
				}
				if base0 == nil {
					g := got
					base0 = &g
				} else if got.key() != base0.key() {
					return viol("delivery-dependence", fmt.Sprintf("%s over %q: chunk size %d gives %s, chunk size %d gives %s", e, stream, chunks[0], base0.key(), ch, got.key()), rb)
				}
				if (!single || len(bs.Read) == 0) && e != "Fscanf" {
					// grammar reference for the scanning entry points: big.Float implements
					// fmt.Scanner with the same "longest prefix" rule; same reader kind, same chunking
					if bok, known := bigScans(e, stream, ch); known {
						cnt["scan_acceptance_checked_against_mathbig"]++
						if bok != got.ok {
							return viol("scan-grammar", fmt.Sprintf("%s over %q: decimal accepted=%v, fmt.Sscan into a *big.Float accepted=%v", e, stream, got.ok, bok), rb)
						}
					}
				}
				if validTok && !single {
					w := strings.Replace(ref0.key(), fmt.Sprintf("base=%d ", ref0.base), "base=0 ", 1)
					if got.key() != w {
						return viol("scan-differs-from-parse", fmt.Sprintf("%s over %q = %s\n  Parse(%q, 0) = %s", e, stream, got.key(), tok, w), rb)
					}
					cnt["scan_equals_parse"]++
				}
			}
		}
		// read faults: every offset of short tokens, sampled for long ones
		var faultSets [][]ReadFault
		if single {
			if len(bs.Read) > 0 {
				faultSets = [][]ReadFault{bs.Read}
			}
		} else if bs.Entry == "enum" {
			step := 1
			if len(stream) > 48 {
				step = len(stream) / 24
			}
			for at := 0; at <= len(stream); at += step {
				for _, k := range []string{"eof", "err", "err_data", "zero", "uerr"} {
					faultSets = append(faultSets, []ReadFault{{Kind: k, At: at}})
				}
			}
		}
		for _, fs := range faultSets {
			for _, ch := range chunks {
				got := one(e, stream, 0, ch, fs)
				rb := &BytesSpec{Entry: e, Text: stream, RecvPrec: prec, RecvMode: mode, Chunk: ch, Read: fs}
				if got.panicMsg != "" {
					return viol("scan-panic", fmt.Sprintf("%s over %q with read fault %v panicked: %s", e, stream, fs, got.panicMsg), rb)
				}
				cnt["faulted_scans"]++
				if !got.ok {
					cnt["faulted_scans_failed"]++
					continue
				}
				// success: must be the value of exactly the bytes delivered before the fault
				f := fs[0]
				delivered := stream
				switch f.Kind {
				case "eof", "err", "uerr":
					if f.At <= len(stream) {
						delivered = stream[:f.At]
					}
				case "err_data":
					if f.At < len(stream) {
						delivered = stream[:f.At+1]
					}
				case "zero":
					// a zero-length read is not an error: nothing is lost
				}
				if e == "Fscan-rs" && (f.Kind == "err_data" || f.Kind == "zero") {
					delivered = stream[:minInt(f.At, len(stream))]
				}
				want := parseVia(e, delivered, 0, prec, mode, ch, nil, nil)
				want2 := parseVia(e, stream, 0, prec, mode, ch, nil, nil)
				cnt["faulted_scans_succeeded_checked"]++
				if got.key() != want.key() && got.key() != want2.key() {
					return viol("wrong-data-after-read-fault", fmt.Sprintf("%s over %q with read fault %v succeeded with %s\n  fault-free scan of the delivered bytes %q gives %s", e, stream, fs, got.key(), delivered, want.key()), rb)
				}
			}
		}
	}
	return finish()
}

func minInt(a, b int) int {
	if a < b {
		return a
	}
	return b
}

package main

import (
	"math"
	"math/big"
	"strings"
)

// Independent reference for "exact value rounded once" (C12): works on decimal
// digit strings and int64 exponents only; shares no code with the library.

// refValue is sign * 0.Digits * 10^Exp (Digits without leading or trailing
// zeros), or a zero / infinity.
type refValue struct {
	Form   int // 0 zero, 1 finite, 2 inf
	Neg    bool
	Digits string
	Exp    int64
	Acc    int // -1 below, 0 exact, +1 above
}

func incDigits(d []byte) (carry bool) {
	for i := len(d) - 1; i >= 0; i-- {
		if d[i] != '9' {
			d[i]++
			return false
		}
		d[i] = '0'
	}
	return true
}

// refRound rounds sign * D * 10^E (D a decimal integer string, possibly with
// leading zeros) once to p significant digits under mode
// (0 ToNearestEven, 1 ToNearestAway, 2 ToZero, 3 AwayFromZero, 4 ToNegativeInf,
// 5 ToPositiveInf). Overflow beyond MaxExp gives an infinity.
func refRound(neg bool, D string, E int64, p uint, mode int) refValue {
	D = strings.TrimLeft(D, "0")
	if D == "" {
		return refValue{Form: 0, Neg: neg}
	}
	exp := int64(len(D)) + E // value = 0.D * 10^exp
	tz := strings.TrimRight(D, "0")
	if uint(len(tz)) <= p {
		return refValue{Form: 1, Neg: neg, Digits: tz, Exp: exp}
	}
	kept := []byte(D[:p])
	rd := D[p] - '0'
	sticky := strings.TrimRight(D[p+1:], "0") != ""
	inc := false
	switch mode {
	case 0:
		inc = rd > 5 || (rd == 5 && (sticky || (kept[len(kept)-1]-'0')&1 == 1))
	case 1:
		inc = rd >= 5
	case 2:
	case 3:
		inc = true
	case 4:
		inc = neg
	case 5:
		inc = !neg
	}
	acc := -1
	if inc {
		acc = 1
		if incDigits(kept) {
			kept = append([]byte{'1'}, kept[:len(kept)-1]...)
			exp++
		}
	}
	if neg {
		acc = -acc
	}
	if exp > math.MaxInt32 {
		return refValue{Form: 2, Neg: neg, Acc: acc}
	}
	return refValue{Form: 1, Neg: neg, Digits: strings.TrimRight(string(kept), "0"), Exp: exp, Acc: acc}
}

// exactDecimal converts mant * base^fcount * 2^exp2 * 10^exp10 (mant >= 0) into
// an integer digit string and a decimal exponent: the value of every literal
// the parsers accept is a finite decimal (2^-k = 5^k * 10^-k).
func exactDecimal(mant *big.Int, exp2, exp10 int64) (string, int64) {
	m := new(big.Int).Set(mant)
	if exp2 > 0 {
		m.Lsh(m, uint(exp2))
	} else if exp2 < 0 {
		f := new(big.Int).Exp(big.NewInt(5), big.NewInt(-exp2), nil)
		m.Mul(m, f)
		exp10 += exp2
	}
	return m.String(), exp10
}

// within1ulp reports whether |got - exact| <= 10^(eExact - p), where exact =
// D*10^E and got = 0.digits*10^exp.
func within1ulp(gotDigits string, gotExp int64, D string, E int64, p uint) bool {
	return withinUlps(gotDigits, gotExp, D, E, p, 1)
}

// withinUlps: |got - exact| <= n * 10^(eExact - p).
func withinUlps(gotDigits string, gotExp int64, D string, E int64, p uint, n int64) bool {
	D = strings.TrimLeft(D, "0")
	if D == "" {
		return gotDigits == ""
	}
	eExact := int64(len(D)) + E
	gE := gotExp - int64(len(gotDigits)) // got = gotDigits * 10^gE
	ulpE := eExact - int64(p)            // ulp = 10^ulpE (p == 0: ten times the leading digit's unit)
	s := gE
	if E < s {
		s = E
	}
	if ulpE < s {
		s = ulpE
	}
	if gE-s > 100000 || E-s > 100000 || ulpE-s > 100000 {
		return false
	}
	pow := func(n int64) *big.Int { return new(big.Int).Exp(big.NewInt(10), big.NewInt(n), nil) }
	g, _ := new(big.Int).SetString(gotDigits, 10)
	if g == nil {
		g = new(big.Int)
	}
	g.Mul(g, pow(gE-s))
	x, _ := new(big.Int).SetString(D, 10)
	x.Mul(x, pow(E-s))
	d := new(big.Int).Sub(g, x)
	d.Abs(d)
	return d.Cmp(new(big.Int).Mul(pow(ulpE-s), big.NewInt(n))) <= 0
}

package main

import (
	"bytes"
	"encoding/binary"
	"encoding/gob"
	"errors"
	"fmt"
	"hash/fnv"
	"io"
	"math"
	"math/big"
	"strings"

	"github.com/db47h/decimal"
	verifrt "github.com/db47h/decimal/verifrt"
)

// ---------------------------------------------------------------------------
// C17 world: an encoder and a decoder connected by a simulated byte transport.
// Fault-free configuration: exact round trip of every attribute. Faults:
// systematic single-fault enumeration over every byte/length of real encodings
// plus seeded multi-fault sequences, also through a real gob stream read from a
// faulty io.Reader.

// applyMuts applies the corruption list to a payload.
func applyMuts(p []byte, muts []ByteMut) []byte {
	b := append([]byte(nil), p...)
	for _, m := range muts {
		switch m.Kind {
		case "trunc":
			if m.At >= 0 && m.At <= len(b) {
				b = b[:m.At]
			}
		case "flip":
			if m.At/8 < len(b) && m.At >= 0 {
				b[m.At/8] ^= 1 << uint(m.At%8)
			}
		case "set":
			if m.At < len(b) && m.At >= 0 {
				b[m.At] = byte(m.Val)
			}
		case "word":
			// overwrite the 8 bytes of mantissa word m.At (0 = most significant in the payload)
			o := 10 + 8*m.At
			if m.At >= 0 && o+8 <= len(b) {
				binary.BigEndian.PutUint64(b[o:], m.Val)
			}
		case "prec":
			if len(b) >= 6 {
				binary.BigEndian.PutUint32(b[2:], uint32(m.Val))
			}
		case "exp":
			if len(b) >= 10 {
				binary.BigEndian.PutUint32(b[6:], uint32(m.Val))
			}
		case "append":
			for i := 0; i < m.N; i++ {
				b = append(b, byte(m.Val+uint64(i)*37))
			}
		case "dup":
			b = append(b, b...)
		case "drop":
			b = b[:0]
		}
	}
	return b
}

// faultyReader delivers data in chunks and injects read faults.
type faultyReader struct {
	data   []byte
	off    int
	chunk  int
	faults []ReadFault
	fired  map[string]int
}

var errInjected = errors.New("injected read error")

func (f *faultyReader) Read(p []byte) (int, error) {
	if len(p) == 0 {
		return 0, nil
	}
	for i := range f.faults {
		ft := &f.faults[i]
		if ft.At != f.off || ft.Kind == "done" {
			continue
		}
		k := ft.Kind
		ft.Kind = "done"
		if f.fired != nil {
			f.fired["fault_read_"+k]++
		}
		switch k {
		case "eof":
			f.data = f.data[:f.off]
			return 0, io.EOF
		case "err":
			f.data = f.data[:f.off]
			return 0, errInjected
		case "uerr":
			f.data = f.data[:f.off]
			return 0, io.ErrUnexpectedEOF
		case "err_data":
			if f.off < len(f.data) {
				p[0] = f.data[f.off]
				f.off++
				f.data = f.data[:f.off]
				return 1, errInjected
			}
		case "zero":
			return 0, nil
		}
	}
	if f.off >= len(f.data) {
		return 0, io.EOF
	}
	n := f.chunk
	if n <= 0 || n > len(p) {
		n = len(p)
	}
	if n > len(f.data)-f.off {
		n = len(f.data) - f.off
	}
	// never read across a pending fault position
	for _, ft := range f.faults {
		if ft.Kind != "done" && ft.At > f.off && ft.At < f.off+n {
			n = ft.At - f.off
		}
	}
	copy(p, f.data[f.off:f.off+n])
	f.off += n
	return n, nil
}

// usable exercises a decoded value; any panic, any change of the value caused by
// unrelated operations, and any failure to round-trip it again is reported.
func usable(z *decimal.Decimal) (msg string) {
	defer func() {
		if r := recover(); r != nil {
			msg = fmt.Sprintf("using the decoded value panicked: %v", r)
		}
	}()
	before := observe(z)
	churnPool()
	if after := observe(z); after.String()+after.Digits != before.String()+before.Digits {
		return fmt.Sprintf("the decoded value changed while unrelated operations ran: %s -> %s", before, after)
	}
	return usableTail(z, before)
}

// churnPool runs unrelated operations that take scratch buffers from the pool: a
// value that shares memory with the pool would be overwritten by them.
func churnPool() {
	a := new(decimal.Decimal).SetPrec(80).SetBitsExp([]decimal.Word{7, 1234567890123456789, 5000000000000000001, 3}, 0)
	b := new(decimal.Decimal).SetPrec(60).SetBitsExp([]decimal.Word{9999999999999999999, 42, 8888888888888888888}, 0)
	q := new(decimal.Decimal).SetPrec(120)
	q.Quo(a, b)
	big12 := make([]decimal.Word, 12)
	for i := range big12 {
		big12[i] = decimal.Word(1000000000000000000 + uint64(i)*77)
	}
	s := new(decimal.Decimal).SetPrec(500).SetBitsExp(big12, 0)
	s.Mul(s, s)
}

func usableTail(z *decimal.Decimal, before Obs) (msg string) {
	defer func() {
		if r := recover(); r != nil {
			msg = fmt.Sprintf("using the decoded value panicked: %v", r)
		}
	}()
	one := new(decimal.Decimal).SetUint64(1)
	t := new(decimal.Decimal).SetPrec(z.Prec() + 1)
	if e := z.MantExp(nil); e > -2000 && e < 2000 {
		t.Add(z, one) // the library's Add shifts by the exponent difference: keep it moderate
	}
	t.Add(z, z)
	_ = z.Text('g', -1)
	t.Mul(z, z)
	_ = z.Cmp(one)
	// an accepted value must round-trip again
	enc, err := z.GobEncode()
	if err != nil {
		return "re-encoding failed: " + err.Error()
	}
	enc = ownBytes(enc)
	var z2 decimal.Decimal
	if err := z2.GobDecode(enc); err != nil {
		return fmt.Sprintf("the accepted value %s does not round-trip: decoding its own encoding %x failed: %v", before, enc, err)
	}
	if o2 := observe(&z2); o2.String()+o2.Digits != before.String()+before.Digits {
		return fmt.Sprintf("the accepted value does not round-trip: %s -> %s", before, o2)
	}
	// the receiver goes on living: the next value it is given must be its own
	// memory, not something the decode also left with the scratch pool
	return reuseReceiver(z, "accepted")
}

func reuseAfterReject(z *decimal.Decimal) string { return reuseReceiver(z, "rejected") }

func reuseReceiver(z *decimal.Decimal, what string) (msg string) {
	defer func() {
		if r := recover(); r != nil {
			msg = fmt.Sprintf("using the receiver of a payload GobDecode %s panicked: %v", what, r)
		}
	}()
	z.SetUint64(1234567890123456789)
	before := observe(z)
	churnPool()
	if after := observe(z); after.String()+after.Digits != before.String()+before.Digits {
		return fmt.Sprintf("after GobDecode %s the payload the receiver was set to %s; it changed to %s while unrelated operations ran", what, before, after)
	}
	return ""
}

// decodeCheck performs one decode of payload p into a receiver described by
// (prec, mode, laden) and applies the under-fault oracle. It returns a
// violation message or "".
func decodeCheck(p []byte, prec uint32, mode uint8, laden bool) (msg string, class string, accepted bool) {
	verifrt.ResetPool() // every case starts from an empty pool: a replay of this case alone sees the same
	defer func() {
		// a panic while preparing the history-laden receiver (SetBitsExp, SetPrec
		// on valid arguments) is a defect of the library too
		if r := recover(); r != nil {
			msg, class, accepted = fmt.Sprintf("preparing the receiver panicked: %v", r), "foreign-panic", false
		}
	}()
	z := new(decimal.Decimal)
	if laden {
		// history-laden receiver: holds a long value and spare capacity
		w := make([]decimal.Word, 6)
		for i := range w {
			w[i] = decimal.Word(wordBase - 1)
		}
		z.SetPrec(200).SetBitsExp(w, 7)
	}
	z.SetMode(decimal.RoundingMode(mode))
	if prec != 0 || laden {
		z.SetPrec(uint(prec))
	}
	var err error
	func() {
		defer func() {
			if r := recover(); r != nil {
				msg = fmt.Sprintf("GobDecode panicked: %v", r)
				class = "foreign-panic"
			}
		}()
		err = z.GobDecode(p)
	}()
	if msg != "" {
		return
	}
	if c := canonical(z); c != "" {
		if err != nil {
			return "GobDecode returned an error and left a malformed receiver: " + c, "not-canonical", false
		}
		return "GobDecode returned nil and left a malformed value: " + c, "not-canonical", true
	}
	if err != nil {
		// a rejected payload leaves the receiver "valid": one case in four (chosen by
		// the payload's bytes) goes on using it - the next value it is given must be
		// its own, not memory the failed call also handed to the scratch pool
		if len(p) >= 18 && (int(p[len(p)-1])+len(p))%4 == 0 {
			if u := reuseAfterReject(z); u != "" {
				return u, "unusable-after-reject", false
			}
		}
		return "", "", false
	}
	if u := usable(z); u != "" {
		return u, "unusable", true
	}
	return "", "", true
}

// safeDecode calls GobDecode and converts a panic into an error description.
func safeDecode(z *decimal.Decimal, p []byte) (err error, panicMsg string) {
	defer func() {
		if r := recover(); r != nil {
			panicMsg = fmt.Sprint(r)
		}
	}()
	return z.GobDecode(p), ""
}

type gobStats struct {
	evals, accepted, rejected int
	keys                      map[uint64]struct{}
	cnt                       map[string]int
}

func keyOf(p []byte, prec uint32, mode uint8, laden bool) uint64 {
	h := fnv.New64a()
	h.Write(p)
	var b [6]byte
	binary.BigEndian.PutUint32(b[:], prec)
	b[4] = mode
	if laden {
		b[5] = 1
	}
	h.Write(b[:])
	return h.Sum64()
}

func genGob(seed uint64, tier string) *Scenario {
	r := newRng(seed, 0x474f42)
	sc := &Scenario{Property: "C17", World: "gob", Seed: seed, Tier: tier}
	class := r.pick(0, 0, 1, 1, 2)
	if tier == "thorough" {
		class = r.pick(0, 1, 1, 2, 2, 3)
	}
	v := r.genVar(class, 0.12, true)
	v.Dirty = 0
	if r.chance(0.04) {
		// precision field at the edges of uint32 (the value itself stays small)
		v.Prec = []uint32{math.MaxUint32, math.MaxUint32 - 17, math.MaxUint32 - 18, math.MaxUint32 - 19, 1 << 31, 1<<31 - 1}[r.intn(6)]
	}
	if r.chance(0.15) && v.Form == 1 {
		// a value that is an exact tie (or a hair off a tie / all nines) at the
		// receiver's precision: decoding into a preset receiver must round it once
		p := r.rangeI(1, 40)
		var sb strings.Builder
		switch r.intn(3) {
		case 0:
			sb.WriteByte(byte('1' + r.intn(9)))
			for i := 1; i < p; i++ {
				sb.WriteByte(byte('0' + r.intn(10)))
			}
		default:
			sb.WriteString(strings.Repeat("9", p))
		}
		sb.WriteString(r.pickS("5", "5", "50000000000000000000", "49999999999999999999", "50000000000000000001", "95", "99999999999999999995"))
		x, _ := new(big.Int).SetString(sb.String(), 10)
		v.Words = bigToWords(x)
		v.Prec = uint32(len(v.Words) * wordDigits)
		pr := uint32(p)
		defer func() { sc.Bytes.RecvPrec = pr }()
	}
	sc.Vars = []VarSpec{v}
	// an operation that produces a non-exact accuracy on the value to transmit
	sc.Bytes = &BytesSpec{Entry: "enum", RecvPrec: r.genPrec(r.pick(1, 2, 4), true), RecvMode: uint8(r.intn(6))}
	if r.chance(0.5) {
		sc.Tasks = []TaskSpec{{Ops: []Op{{ID: 0, Name: "SetPrec", Z: 0, I: int64(r.genPrec(2, false))}}}}
	}
	// seeded multi-fault sequences
	n := r.rangeI(4, 12)
	for i := 0; i < n; i++ {
		sc.Bytes.Mut = append(sc.Bytes.Mut, ByteMut{Kind: "seq", N: r.rangeI(2, 4), Val: r.Uint64()})
	}
	sc.Bytes.Chunk = r.pick(0, 1, 2, 3, 7, 64)
	return sc
}

// transmitted builds the value of the scenario and its encoding.
func transmitted(sc *Scenario) (*decimal.Decimal, []byte, error) {
	x := buildVar(&sc.Vars[0])
	if len(sc.Tasks) > 0 {
		w := &World{V: []*decimal.Decimal{x}}
		for i := range sc.Tasks[0].Ops {
			execOp(w, &sc.Tasks[0].Ops[i])
		}
	}
	b, err := x.GobEncode()
	return x, ownBytes(b), err
}

// wireMsg is a composite message carrying Decimals in every position gob treats
// differently.
type wireMsg struct {
	V decimal.Decimal
	P *decimal.Decimal
	S []*decimal.Decimal
	N *decimal.Decimal
	K int
}

func sameObs(a, b *decimal.Decimal) bool {
	ao, bo := observe(a), observe(b)
	return ao.String()+ao.Digits == bo.String()+bo.Digits
}

// presetWant is what decoding x into a Decimal that already has the given
// precision and mode must give (the receiver keeps its precision and mode, the
// value is rounded once); precision 0: all of x's attributes.
func presetWant(x *decimal.Decimal, prec uint, mode decimal.RoundingMode) *decimal.Decimal {
	if prec == 0 {
		return x
	}
	return new(decimal.Decimal).SetMode(mode).SetPrec(prec).Set(x)
}

func compositeStream(x *decimal.Decimal, chunk int, cnt map[string]int) (msg string) {
	defer func() {
		if r := recover(); r != nil {
			msg = fmt.Sprintf("composite gob stream round trip of %s panicked: %v", observe(x), r)
		}
	}()
	if x.Prec() > maxWorkPrec {
		return ""
	}
	y := new(decimal.Decimal).SetPrec(7).SetMode(decimal.ToZero)
	y.Quo(new(decimal.Decimal).SetInt64(-22), new(decimal.Decimal).SetInt64(7)) // inexact, negative, short
	ninf := new(decimal.Decimal).SetInf(true)
	m1 := wireMsg{V: *new(decimal.Decimal).Copy(x), P: x, S: []*decimal.Decimal{x, y, ninf}, N: nil, K: 1}
	m2 := wireMsg{V: *new(decimal.Decimal).Copy(y), P: y, S: []*decimal.Decimal{y}, N: x, K: 2}
	var buf bytes.Buffer
	enc := gob.NewEncoder(&buf)
	if err := enc.Encode(&m1); err != nil {
		return "gob.Encoder failed on a struct holding Decimals: " + err.Error()
	}
	if err := enc.Encode(&m2); err != nil {
		return "gob.Encoder failed on a struct holding Decimals: " + err.Error()
	}
	// a third message whose value field was never set (the default Decimal)
	m3 := wireMsg{P: x, K: 3}
	if err := enc.Encode(&m3); err != nil {
		return "gob.Encoder failed on a struct holding a default Decimal: " + err.Error()
	}
	data := append([]byte(nil), buf.Bytes()...)
	// (a) fresh destinations
	{
		dec := gob.NewDecoder(&faultyReader{data: data, chunk: chunk})
		var d1, d2 wireMsg
		if err := dec.Decode(&d1); err != nil {
			return fmt.Sprintf("decoding a struct holding %s failed: %v", observe(x), err)
		}
		if err := dec.Decode(&d2); err != nil {
			return fmt.Sprintf("decoding the second struct on a stream failed: %v", err)
		}
		if !sameObs(&d1.V, x) || d1.P == nil || !sameObs(d1.P, x) || len(d1.S) != 3 || !sameObs(d1.S[0], x) || !sameObs(d1.S[1], y) || !sameObs(d1.S[2], ninf) || d1.N != nil || d1.K != 1 {
			return fmt.Sprintf("struct round trip changed a Decimal: sent V=P=S[0]=%s, received V=%s P=%s S=%v N=%v", observe(x), observe(&d1.V), obsP(d1.P), obsS(d1.S), obsP(d1.N))
		}
		if !sameObs(&d2.V, y) || d2.P == nil || !sameObs(d2.P, y) || len(d2.S) != 1 || !sameObs(d2.S[0], y) || d2.N == nil || !sameObs(d2.N, x) || d2.K != 2 {
			return fmt.Sprintf("second struct on the stream: sent V=P=S[0]=%s N=%s, received V=%s P=%s S=%v N=%s", observe(y), observe(x), observe(&d2.V), obsP(d2.P), obsS(d2.S), obsP(d2.N))
		}
		cnt["roundtrip_composite_fresh"]++
	}
	// (b) one destination reused for both messages: a Decimal that is already
	// there keeps its precision and mode and receives the new value rounded once
	{
		dec := gob.NewDecoder(&faultyReader{data: data, chunk: chunk})
		var d wireMsg
		if err := dec.Decode(&d); err != nil {
			return fmt.Sprintf("decoding a struct holding %s failed: %v", observe(x), err)
		}
		vp, vm := d.V.Prec(), d.V.Mode()
		pp, pm := d.P.Prec(), d.P.Mode()
		s0p, s0m := d.S[0].Prec(), d.S[0].Mode()
		if err := dec.Decode(&d); err != nil {
			return fmt.Sprintf("decoding the second struct into the same destination failed: %v", err)
		}
		if w := presetWant(y, vp, vm); !sameObs(&d.V, w) {
			return fmt.Sprintf("reused destination, field by value: held %s, then received %s: got %s, want %s", observe(x), observe(y), observe(&d.V), observe(w))
		}
		if w := presetWant(y, pp, pm); d.P == nil || !sameObs(d.P, w) {
			return fmt.Sprintf("reused destination, pointer field: held %s, then received %s: got %s, want %s", observe(x), observe(y), obsP(d.P), observe(w))
		}
		if len(d.S) != 1 {
			return fmt.Sprintf("reused destination: slice has %d elements after a 1-element message", len(d.S))
		}
		if w := presetWant(y, s0p, s0m); !sameObs(d.S[0], w) {
			return fmt.Sprintf("reused destination, slice element: held %s, then received %s: got %s, want %s", observe(x), observe(y), observe(d.S[0]), observe(w))
		}
		if d.N == nil || !sameObs(d.N, x) {
			return fmt.Sprintf("reused destination, pointer that was nil: sent %s, got %s", observe(x), obsP(d.N))
		}
		// third message: V is the default Decimal; the destination's V keeps its
		// precision and mode and becomes +0
		vp, vm = d.V.Prec(), d.V.Mode()
		pp, pm = d.P.Prec(), d.P.Mode()
		if err := dec.Decode(&d); err != nil {
			return fmt.Sprintf("decoding the third struct (default Decimal by value) into the same destination failed: %v", err)
		}
		if w := presetWant(new(decimal.Decimal), vp, vm); !sameObs(&d.V, w) {
			return fmt.Sprintf("reused destination: field by value held %s (prec %d), then received the default Decimal: got %s, want %s", observe(y), vp, observe(&d.V), observe(w))
		}
		if w := presetWant(x, pp, pm); !sameObs(d.P, w) {
			return fmt.Sprintf("reused destination, pointer field, third message: got %s, want %s", obsP(d.P), observe(w))
		}
		cnt["roundtrip_composite_reused"]++
	}
	return ""
}

func obsP(d *decimal.Decimal) string {
	if d == nil {
		return "<nil>"
	}
	return observe(d).String()
}

func obsS(s []*decimal.Decimal) []string {
	var o []string
	for _, d := range s {
		o = append(o, obsP(d))
	}
	return o
}

// ownBytes takes possession of a slice a library call returned: the harness
// keeps a copy and overwrites the original, as a caller that reuses the buffer
// would. A later call must not be affected (the slice is the caller's).
func ownBytes(b []byte) []byte {
	c := append([]byte(nil), b...)
	for i := range b {
		b[i] = 0x5b
	}
	return c
}

func seqMuts(r rng, n int, L int) []ByteMut {
	var ms []ByteMut
	for i := 0; i < n; i++ {
		switch r.intn(9) {
		case 0:
			ms = append(ms, ByteMut{Kind: "trunc", At: r.intn(L + 1)})
		case 1:
			ms = append(ms, ByteMut{Kind: "flip", At: r.intn(8*L + 1)})
		case 2:
			ms = append(ms, ByteMut{Kind: "set", At: r.intn(L + 1), Val: uint64(r.pick(0, 0xff, 0x80, r.intn(256)))})
		case 3:
			ms = append(ms, ByteMut{Kind: "word", At: r.intn(L/8 + 1), Val: []uint64{wordBase, math.MaxUint64, 0, wordBase/10 - 1, wordBase - 1, r.Uint64()}[r.intn(6)]})
		case 4:
			ms = append(ms, ByteMut{Kind: "prec", Val: []uint64{0, 1, 18, 19, 20, 0xffffffff, 0x80000000}[r.intn(7)]})
		case 5:
			ms = append(ms, ByteMut{Kind: "exp", Val: []uint64{0, 0x7fffffff, 0x80000000, 0xffffffff}[r.intn(4)]})
		case 6:
			ms = append(ms, ByteMut{Kind: "append", N: r.rangeI(1, 16), Val: r.Uint64() & 0xff})
		case 7:
			ms = append(ms, ByteMut{Kind: "dup"})
		case 8:
			ms = append(ms, ByteMut{Kind: "set", At: 1, Val: uint64(r.intn(256))})
		}
	}
	return ms
}

// runGob executes the C17 scenario. Entry "enum": round-trip checks plus the
// full single-fault enumeration and the seeded sequences; Entry "single": one
// decode of Payload with Mut applied (the replay form).
func runGob(sc *Scenario) *Outcome {
	out := &Outcome{Counters: map[string]int{}}
	st := &gobStats{keys: map[uint64]struct{}{}, cnt: out.Counters}
	bs := sc.Bytes
	viol := func(class, msg string, repro *Scenario) *Outcome {
		out.Violation = &ViolationRec{Property: "C17", Class: class, Oracle: "gob", OpName: "GobDecode", Msg: msg, Sig: class + ":GobDecode"}
		out.Repro = repro
		return out
	}
	single := func(payload []byte, muts []ByteMut, prec uint32, mode uint8, laden bool) *Scenario {
		return &Scenario{Property: "C17", World: "gob", Seed: sc.Seed, Bytes: &BytesSpec{Entry: "single", Payload: payload, Mut: muts, RecvPrec: prec, RecvMode: mode, Chunk: boolInt(laden)}}
	}
	try := func(payload []byte, muts []ByteMut, prec uint32, mode uint8, laden bool) *Outcome {
		p := applyMuts(payload, muts)
		st.evals++
		if !bytes.Equal(p, payload) {
			st.keys[keyOf(p, prec, mode, laden)] = struct{}{}
		}
		msg, class, acc := decodeCheck(p, prec, mode, laden)
		if acc {
			st.accepted++
		} else {
			st.rejected++
		}
		if msg != "" {
			return viol(class, fmt.Sprintf("%s\n  payload %x\n  receiver prec=%d mode=%d laden=%v", msg, p, prec, mode, laden), single(payload, muts, prec, mode, laden))
		}
		return nil
	}
	finish := func() *Outcome {
		out.Evals = st.evals
		for k := range st.keys {
			out.Keys = append(out.Keys, k)
		}
		out.Counters["decodes_accepted"] += st.accepted
		out.Counters["decodes_rejected"] += st.rejected
		out.Nontrivial = len(st.keys) > 0
		for _, k := range out.Keys {
			out.Trace += k // order independent
		}
		out.Trace ^= uint64(out.Evals) << 40
		return out
	}

	if bs.Entry == "single" {
		if o := try(bs.Payload, bs.Mut, bs.RecvPrec, bs.RecvMode, bs.Chunk != 0); o != nil {
			return o
		}
		return finish()
	}
	if bs.Entry == "stream" {
		if o := gobStream(sc, out, st); o != nil {
			return o
		}
		return finish()
	}

	// ---- fault-free configuration ----
	rt := sc.Clone()
	rt.Bytes.Entry = "roundtrip"
	rt.Bytes.Mut = nil
	rt.Expect = nil
	x, enc, err := transmitted(sc)
	if err != nil {
		return viol("encode-error", "GobEncode failed: "+err.Error(), rt)
	}
	xo := observe(x)
	out.Ops++
	{
		var z decimal.Decimal
		err, pm := safeDecode(&z, enc)
		if pm != "" {
			return viol("foreign-panic", fmt.Sprintf("decoding the valid encoding of %s panicked: %s", xo, pm), rt)
		}
		if err != nil {
			return viol("roundtrip", fmt.Sprintf("decoding the encoding of %s failed: %v", xo, err), rt)
		}
		if zo := observe(&z); zo.String()+zo.Digits != xo.String()+xo.Digits {
			return viol("roundtrip", fmt.Sprintf("round trip into a zero value changed the Decimal:\n  sent     %s\n  received %s", xo, zo), rt)
		}
		out.Counters["roundtrip_zero_receiver"]++
	}
	if bs.RecvPrec != 0 {
		for laden := 0; laden < 4; laden++ {
			z := new(decimal.Decimal)
			switch laden {
			case 1:
				// held a long finite value
				z.SetPrec(300).SetUint64(math.MaxUint64)
				z.Mul(z, z)
			case 2:
				// an infinity that was a long finite value before
				z.SetPrec(300).SetUint64(math.MaxUint64)
				z.Mul(z, z).SetInf(true)
			case 3:
				// a zero that was 0.99...9e+MaxExp before (stale mantissa and exponent)
				w := make([]decimal.Word, 6)
				for i := range w {
					w[i] = decimal.Word(wordBase - 1)
				}
				z.SetPrec(200).SetBitsExp(w, decimal.MaxExp)
				z.SetInt64(0)
			}
			z.SetMode(decimal.RoundingMode(bs.RecvMode)).SetPrec(uint(bs.RecvPrec))
			err, pm := safeDecode(z, enc)
			if pm != "" {
				return viol("foreign-panic", fmt.Sprintf("decoding the valid encoding of %s into a receiver with prec=%d mode=%d panicked: %s", xo, bs.RecvPrec, bs.RecvMode, pm), rt)
			}
			if err != nil {
				return viol("roundtrip", fmt.Sprintf("decoding the encoding of %s failed: %v", xo, err), rt)
			}
			want := new(decimal.Decimal).SetMode(decimal.RoundingMode(bs.RecvMode)).SetPrec(uint(bs.RecvPrec)).Set(x)
			zo, wo := observe(z), observe(want)
			if zo.String()+zo.Digits != wo.String()+wo.Digits {
				return viol("roundtrip-rounded", fmt.Sprintf("decoding into a receiver with prec=%d mode=%d:\n  sent     %s\n  received %s\n  expected %s (receiver's precision and mode kept, value rounded once)", bs.RecvPrec, bs.RecvMode, xo, zo, wo),
					rt)
			}
			out.Counters["roundtrip_preset_receiver"]++
		}
	}
	// the default Decimal into a preset receiver: precision and mode are the receiver's
	if bs.RecvPrec != 0 {
		e0, err := new(decimal.Decimal).GobEncode()
		if err != nil {
			return viol("encode-error", "GobEncode of the default Decimal failed: "+err.Error(), rt)
		}
		z := new(decimal.Decimal).SetMode(decimal.RoundingMode(bs.RecvMode)).SetPrec(uint(bs.RecvPrec))
		z.SetInt64(-7)
		if err, pm := safeDecode(z, ownBytes(e0)); err != nil || pm != "" {
			return viol("roundtrip", fmt.Sprintf("decoding the encoding of the default Decimal failed: %v %s", err, pm), rt)
		}
		if zo := observe(z); zo.Form != 0 || zo.Neg || zo.Prec != uint(bs.RecvPrec) || zo.Mode != decimal.RoundingMode(bs.RecvMode) {
			return viol("roundtrip-rounded", fmt.Sprintf("decoding the default Decimal into a receiver with prec=%d mode=%d gave %s (the receiver's precision and mode must be kept)", bs.RecvPrec, bs.RecvMode, zo), rt)
		}
		out.Counters["roundtrip_default_into_preset"]++
	}
	// through a real gob stream with benign chunking, and text/JSON forms
	{
		var buf bytes.Buffer
		if err := gob.NewEncoder(&buf).Encode(x); err != nil {
			return viol("roundtrip-stream", "gob.Encoder failed: "+err.Error(), rt)
		}
		var z decimal.Decimal
		rd := &faultyReader{data: buf.Bytes(), chunk: bs.Chunk}
		var derr error
		pm := ""
		func() {
			defer func() {
				if r := recover(); r != nil {
					pm = fmt.Sprint(r)
				}
			}()
			derr = gob.NewDecoder(rd).Decode(&z)
		}()
		if pm != "" {
			return viol("foreign-panic", fmt.Sprintf("gob stream round trip of %s panicked: %s", xo, pm), rt)
		}
		if err := derr; err != nil {
			return viol("roundtrip-stream", fmt.Sprintf("gob stream round trip of %s failed: %v", xo, err), rt)
		}
		if zo := observe(&z); zo.String()+zo.Digits != xo.String()+xo.Digits {
			return viol("roundtrip-stream", fmt.Sprintf("gob stream round trip changed the Decimal:\n  sent     %s\n  received %s", xo, zo), rt)
		}
		out.Counters["roundtrip_gob_stream"]++
	}
	// the value inside composite messages on one gob stream: as a struct field by
	// value and by pointer, in a slice, next to a nil pointer; two messages, read
	// into fresh destinations and into one destination that is reused
	if msg := compositeStream(x, bs.Chunk, out.Counters); msg != "" {
		return viol("roundtrip-stream", msg, rt)
	}

	if bs.Entry == "roundtrip" {
		return finish()
	}

	// ---- systematic single-fault enumeration ----
	L := len(enc)
	recvs := []struct {
		prec  uint32
		mode  uint8
		laden bool
	}{{0, 0, false}, {bs.RecvPrec, bs.RecvMode, true}}
	for _, rc := range recvs {
		one := func(m ByteMut) *Outcome { return try(enc, []ByteMut{m}, rc.prec, rc.mode, rc.laden) }
		// every truncation length
		for n := 0; n <= L; n++ {
			if o := one(ByteMut{Kind: "trunc", At: n}); o != nil {
				return o
			}
			out.Counters["fault_bytes_truncate"]++
		}
		// every bit of the header and of one mantissa word at each end
		for bit := 0; bit < 8*L; bit++ {
			byteI := bit / 8
			if byteI >= 10 && !(byteI < 18 || byteI >= L-8) {
				continue
			}
			if o := one(ByteMut{Kind: "flip", At: bit}); o != nil {
				return o
			}
			out.Counters["fault_bytes_flip"]++
		}
		// every byte position set to 0x00 / 0xFF (strided above 256 bytes)
		stride := 1
		if L > 256 {
			stride = L / 128
		}
		for i := 0; i < L; i += stride {
			for _, v := range []uint64{0, 0xff} {
				if o := one(ByteMut{Kind: "set", At: i, Val: v}); o != nil {
					return o
				}
				out.Counters["fault_bytes_set"]++
			}
		}
		// every mantissa word replaced by out-of-range / edge values
		for w := 0; 10+8*(w+1) <= L; w++ {
			for _, v := range []uint64{wordBase, math.MaxUint64, 0, wordBase/10 - 1} {
				if o := one(ByteMut{Kind: "word", At: w, Val: v}); o != nil {
					return o
				}
				out.Counters["fault_bytes_word"]++
			}
		}
		// all 256 values of the form/mode/accuracy byte and of the version byte
		for v := 0; v < 256; v++ {
			if o := one(ByteMut{Kind: "set", At: 1, Val: uint64(v)}); o != nil {
				return o
			}
			if o := one(ByteMut{Kind: "set", At: 0, Val: uint64(v)}); o != nil {
				return o
			}
			out.Counters["fault_bytes_header"] += 2
		}
		// header byte 1 x every truncation length (fully enumerated for short encodings)
		if L <= 34 {
			for v := 0; v < 256; v++ {
				for n := 2; n <= L; n++ {
					if o := try(enc, []ByteMut{{Kind: "set", At: 1, Val: uint64(v)}, {Kind: "trunc", At: n}}, rc.prec, rc.mode, rc.laden); o != nil {
						return o
					}
				}
			}
			out.Counters["exhaustive_header_x_truncation_payloads"]++
		}
		for _, v := range []uint64{0, 1, 18, 19, 20, 37, 38, 39, 0x7fffffff, 0x80000000, 0xffffffff} {
			if o := one(ByteMut{Kind: "prec", Val: v}); o != nil {
				return o
			}
			out.Counters["fault_bytes_prec"]++
		}
		for n := 1; n <= 16; n++ {
			if o := one(ByteMut{Kind: "append", N: n, Val: uint64(n * 17)}); o != nil {
				return o
			}
			out.Counters["fault_bytes_extend"]++
		}
		if o := one(ByteMut{Kind: "drop"}); o != nil {
			return o
		}
		if o := one(ByteMut{Kind: "dup"}); o != nil {
			return o
		}
		out.Counters["fault_bytes_drop_dup"] += 2
	}

	// ---- seeded multi-fault sequences ----
	for i, m := range bs.Mut {
		if m.Kind != "seq" {
			continue
		}
		r := newRng(m.Val, uint64(i))
		ms := seqMuts(r, m.N, L)
		rc := recvs[i%2]
		if o := try(enc, ms, rc.prec, rc.mode, rc.laden); o != nil {
			return o
		}
		out.Counters["fault_bytes_multi"]++
	}

	// ---- corrupted gob stream under a real gob.Decoder and a faulty reader ----
	if o := gobStream(sc, out, st); o != nil {
		return o
	}
	return finish()
}

func boolInt(b bool) int {
	if b {
		return 1
	}
	return 0
}

// gobStream corrupts the gob stream itself (not the GobEncode payload) and
// injects read faults, so that GobDecode is reached with whatever encoding/gob
// lets through. Several values are sent so that drop/duplicate/reorder of
// messages is covered.
func gobStream(sc *Scenario, out *Outcome, st *gobStats) *Outcome {
	x, _, err := transmitted(sc)
	if err != nil {
		return nil
	}
	r := newRng(sc.Seed, 0x5354524d)
	var msgs [][]byte
	vals := []*decimal.Decimal{x, new(decimal.Decimal).SetPrec(40).SetInt64(-42), new(decimal.Decimal).SetInf(true)}
	var buf bytes.Buffer
	enc := gob.NewEncoder(&buf)
	for _, v := range vals {
		n0 := buf.Len()
		if err := enc.Encode(v); err != nil {
			return nil
		}
		msgs = append(msgs, append([]byte(nil), buf.Bytes()[n0:]...))
	}
	rounds := 6
	for k := 0; k < rounds; k++ {
		order := []int{0, 1, 2}
		switch r.intn(5) {
		case 0:
			order = []int{0, 2, 1} // reorder
		case 1:
			order = []int{0, 0, 1, 2} // duplicate
		case 2:
			order = []int{0, 2} // drop
		}
		var stream []byte
		for _, i := range order {
			stream = append(stream, msgs[i]...)
		}
		if r.chance(0.6) {
			stream = applyMuts(stream, seqMutsStream(r, len(stream)))
		}
		rd := &faultyReader{data: stream, chunk: r.pick(0, 1, 3, 16), fired: out.Counters}
		if r.chance(0.6) {
			rd.faults = append(rd.faults, ReadFault{Kind: r.pickS("eof", "err", "uerr", "err_data", "zero"), At: r.intn(len(stream) + 1)})
		}
		dec := gob.NewDecoder(rd)
		for i := 0; i < len(order)+1; i++ {
			z := new(decimal.Decimal)
			if r.chance(0.5) {
				z.SetPrec(uint(r.genPrec(2, false))).SetMode(decimal.RoundingMode(r.intn(6)))
			}
			var derr error
			var pmsg string
			func() {
				defer func() {
					if rr := recover(); rr != nil {
						pmsg = fmt.Sprint(rr)
					}
				}()
				derr = dec.Decode(z)
			}()
			st.evals++
			out.Counters["gob_stream_decodes"]++
			if pmsg != "" {
				out.Violation = &ViolationRec{Property: "C17", Class: "foreign-panic", Oracle: "gob-stream", OpName: "GobDecode",
					Msg: fmt.Sprintf("decoding a corrupted gob stream panicked: %s\n  stream %x", pmsg, stream), Sig: "foreign-panic:gob-stream"}
				out.Repro = &Scenario{Property: "C17", World: "gob", Seed: sc.Seed, Vars: sc.Vars, Tasks: sc.Tasks, Bytes: &BytesSpec{Entry: "stream"}}
				return out
			}
			if c := canonical(z); c != "" {
				out.Violation = &ViolationRec{Property: "C17", Class: "not-canonical", Oracle: "gob-stream", OpName: "GobDecode",
					Msg: fmt.Sprintf("decoding a corrupted gob stream (err=%v) left a malformed value: %s\n  stream %x", derr, c, stream), Sig: "not-canonical:gob-stream"}
				out.Repro = &Scenario{Property: "C17", World: "gob", Seed: sc.Seed, Vars: sc.Vars, Tasks: sc.Tasks, Bytes: &BytesSpec{Entry: "stream"}}
				return out
			}
			if derr != nil {
				st.rejected++
				break
			}
			st.accepted++
			if u := usable(z); u != "" {
				out.Violation = &ViolationRec{Property: "C17", Class: "unusable", Oracle: "gob-stream", OpName: "GobDecode", Msg: u, Sig: "unusable:gob-stream"}
				out.Repro = &Scenario{Property: "C17", World: "gob", Seed: sc.Seed, Vars: sc.Vars, Tasks: sc.Tasks, Bytes: &BytesSpec{Entry: "stream"}}
				return out
			}
		}
	}
	return nil
}

func seqMutsStream(r rng, L int) []ByteMut {
	var ms []ByteMut
	for i, n := 0, r.rangeI(1, 3); i < n; i++ {
		switch r.intn(4) {
		case 0:
			ms = append(ms, ByteMut{Kind: "trunc", At: r.intn(L + 1)})
		case 1:
			ms = append(ms, ByteMut{Kind: "flip", At: r.intn(8*L + 1)})
		case 2:
			ms = append(ms, ByteMut{Kind: "set", At: r.intn(L + 1), Val: uint64(r.intn(256))})
		case 3:
			ms = append(ms, ByteMut{Kind: "append", N: r.rangeI(1, 8), Val: uint64(r.intn(256))})
		}
	}
	return ms
}

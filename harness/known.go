package main

import (
	"encoding/json"
	"os"
	"strings"
)

// KnownFinding is one entry of /verif/known_findings.json. Only entries with
// status "known" suppress anything; "fixed" entries are documentation.
type KnownFinding struct {
	Property string `json:"property"`
	Status   string `json:"status"` // "known" | "fixed"
	Sig      string `json:"sig"`    // exact structural signature of the violation (class:op[:detail])
	Commit   string `json:"commit,omitempty"`
	Text     string `json:"text"`
}

var knownFindings []KnownFinding

func loadKnown(path string) {
	if path == "" {
		return
	}
	b, err := os.ReadFile(path)
	if err != nil {
		return
	}
	var f struct {
		Findings []KnownFinding `json:"findings"`
	}
	if json.Unmarshal(b, &f) == nil {
		knownFindings = f.Findings
	}
}

// matchKnown returns the text of the known finding that covers v, or "".
func matchKnown(v *ViolationRec) string {
	for _, k := range knownFindings {
		if k.Status != "known" || k.Property != v.Property {
			continue
		}
		if k.Sig == v.Sig || (strings.HasSuffix(k.Sig, "*") && strings.HasPrefix(v.Sig, strings.TrimSuffix(k.Sig, "*"))) {
			return k.Text
		}
	}
	return ""
}

package main

import (
	"fmt"
	"math/big"
	"reflect"
	"strings"

	"github.com/db47h/decimal"
	dctx "github.com/db47h/decimal/context"
	verifrt "github.com/db47h/decimal/verifrt"
)

// ---------------------------------------------------------------------------
// C08: every reachable Decimal is canonical.

type oracleC08 struct {
	cnt map[string]int
}

func (o *oracleC08) before(c *stepCtx)                               {}
func (o *oracleC08) monitor() func(task, op int, site uint32) string { return nil }
func (o *oracleC08) counters() map[string]int                        { return o.cnt }

func (o *oracleC08) after(c *stepCtx) *ViolationRec {
	for i, v := range c.w.V {
		if msg := canonical(v); msg != "" {
			how := "after"
			switch {
			case c.res.Panicked:
				how = "after the recovered panic of"
				o.cnt["canonical_checked_after_panic"]++
			case c.res.Failed:
				how = "after the reported failure of"
			}
			return &ViolationRec{Class: "not-canonical", Oracle: "M-canon",
				Msg: fmt.Sprintf("v%d is not canonical %s %s: %s", i, how, opDesc(c), msg),
				Sig: "not-canonical:" + c.op.Name + ":" + sigWord(msg)}
		}
		o.cnt["canonical_checks"]++
	}
	if c.res.Failed {
		o.cnt["canonical_checked_after_failure"]++
	}
	// cross invariant: Cmp == 0 <=> identical (sign class, digits, exponent)
	for i := range c.w.V {
		for j := i + 1; j < len(c.w.V); j++ {
			a, b := c.post[i], c.post[j]
			eq := valueKey(a) == valueKey(b)
			cmp := c.w.V[i].Cmp(c.w.V[j])
			o.cnt["cmp_cross_checks"]++
			if (cmp == 0) != eq {
				return &ViolationRec{Class: "cmp-disagrees-with-representation", Oracle: "cross-invariant",
					Msg: fmt.Sprintf("after %s: v%d.Cmp(v%d) = %d but representations are %s and %s", opDesc(c), i, j, cmp, a.Value(), b.Value()),
					Sig: "cmp-disagrees:" + c.op.Name}
			}
		}
	}
	// operations that only round a value cannot move its leading digit by more
	// than one place: a result far away means the exponent wrapped or was lost
	switch c.op.Name {
	case "Set", "Neg", "Abs", "Copy", "SetPrec", "GobCopy", "TextCopy", "JSONCopy":
		if c.op.Z >= 0 && !c.res.Panicked && !c.res.Failed && !c.res.Skipped {
			src := c.op.Z
			if len(c.op.A) > 0 {
				src = c.op.A[0]
			}
			a, b := c.pre[src], c.post[c.op.Z]
			if a.Form == 1 && b.Form == 1 && b.Exp != a.Exp && int64(b.Exp) != int64(a.Exp)+1 {
				return &ViolationRec{Class: "exponent-moved-by-rounding", Oracle: "cross-invariant",
					Msg: fmt.Sprintf("after %s: rounding a value with exponent %d produced a finite value with exponent %d (a result that leaves the range must be ±Inf or ±0)", opDesc(c), a.Exp, b.Exp),
					Sig: "exponent-moved-by-rounding:" + c.op.Name}
			}
			o.cnt["rounding_exponent_checks"]++
		}
	}
	// SetPrec(MinPrec) on a copy of the receiver is exact
	if c.op.Z >= 0 && !c.res.Panicked && !c.res.Failed && c.post[c.op.Z].Form == 1 {
		z := c.w.V[c.op.Z]
		cp := new(decimal.Decimal).Copy(z)
		cp.SetPrec(z.MinPrec())
		o.cnt["minprec_exact_checks"]++
		if cp.Acc() != decimal.Exact || cp.Cmp(z) != 0 {
			return &ViolationRec{Class: "minprec-not-exact", Oracle: "cross-invariant",
				Msg: fmt.Sprintf("after %s: rounding a copy of the receiver to its MinPrec %d is not exact", opDesc(c), z.MinPrec()),
				Sig: "minprec-not-exact:" + c.op.Name}
		}
	}
	return nil
}

func sigWord(msg string) string {
	f := strings.Fields(msg)
	if len(f) > 3 {
		f = f[:3]
	}
	return strings.Join(f, "-")
}

// valueKey: zeros compare equal regardless of sign.
func valueKey(o Obs) string {
	if o.Form == 0 {
		return "0"
	}
	return o.Value()
}

// ---------------------------------------------------------------------------
// C09: precision and mode are sticky; operands are never modified.

type oracleC09 struct {
	cnt map[string]int
	mon *memMonitor
	sc  *Scenario
	w   *World
}

func (o *oracleC09) setWorld(sc *Scenario, w *World) {
	o.sc, o.w = sc, w
	o.mon = newMemMonitor(sc, w)
}
func (o *oracleC09) counters() map[string]int {
	o.cnt["monitor_evals_c09"] = int(o.mon.evals)
	return o.cnt
}

// monitor: every variable except the receiver of the running step must keep its
// complete memory image (value, sign, precision, mode, accuracy, every mantissa
// word up to capacity) at every statement boundary; so must every package-level
// variable of the library.
func (o *oracleC09) monitor() func(task, op int, site uint32) string {
	return func(task, op int, site uint32) string {
		m := o.mon
		m.evals++
		for i, v := range m.w.V {
			if i == m.exclude {
				continue
			}
			if d := decimal.VerifDigest(0, v); d != m.last[i] {
				return fmt.Sprintf("operand v%d (not the receiver) was modified during op #%d (detected before %s)", i, op, siteStr(site))
			}
		}
		if g := decimal.VerifGlobalsDigest(); g != m.gbase {
			if verifrt.LocksHeld() > 0 || verifrt.LockEpoch != m.epoch {
				m.gbase = g
			} else {
				return fmt.Sprintf("package-level state of the library was modified during op #%d (detected before %s)", op, siteStr(site))
			}
		}
		if a := decimal.VerifAtomicHeldDigest(); a != m.abase {
			if verifrt.LocksHeld() > 0 || verifrt.LockEpoch != m.epoch || verifrt.JustAtomic() {
				m.abase = a
			} else {
				return fmt.Sprintf("data held in a package-level sync/atomic value was changed in place by an ordinary statement during op #%d (detected before %s)", op, siteStr(site))
			}
		}
		m.epoch = verifrt.LockEpoch
		return ""
	}
}

func (o *oracleC09) before(c *stepCtx) {
	// variables are rebuilt by context factories; refresh the images
	for i, v := range c.w.V {
		o.mon.last[i] = decimal.VerifDigest(0, v)
	}
	o.mon.exclude = -1
	if c.op.Z >= 0 && opInfo[c.op.Name].writes {
		o.mon.exclude = c.op.Z
	}
}

func maxPrec(c *stepCtx) uint {
	var p uint
	for _, a := range c.op.A {
		if c.pre[a].Prec > p {
			p = c.pre[a].Prec
		}
	}
	return p
}

func (o *oracleC09) after(c *stepCtx) *ViolationRec {
	op := c.op
	fail := func(class, f string, a ...interface{}) *ViolationRec {
		return &ViolationRec{Class: class, Oracle: "attribute-model", Msg: fmt.Sprintf(f, a...) + "\n  " + opDesc(c), Sig: class + ":" + op.Name}
	}
	// Oracle B, end of step: operands that are not the receiver keep everything
	for i, v := range c.w.V {
		if i == o.mon.exclude {
			continue
		}
		if decimal.VerifDigest(0, v) != c.preD[i] {
			return fail("operand-modified", "v%d is not the receiver but changed: before %s, after %s", i, c.pre[i], c.post[i])
		}
		o.cnt["operand_images_checked"]++
	}
	if c.res.Foreign != "" {
		return fail("operand-modified", "the math/big operand of %s changed: %s", op.Name, c.res.Foreign)
	}
	if op.Z < 0 || !opInfo[op.Name].writes || c.res.Skipped {
		return nil
	}
	pre, post := c.pre[op.Z], c.post[op.Z]
	o.cnt["attribute_steps"]++

	// ---- rounding mode ----
	wantMode := pre.Mode
	modeFree := false
	switch op.Name {
	case "SetMode":
		wantMode = decimal.RoundingMode(op.M)
	case "Copy", "SetMantExp":
		wantMode = c.pre[op.A[0]].Mode
	case "MantExp":
		wantMode = c.pre[op.A[0]].Mode
	case "GobCopy":
		if pre.Prec == 0 {
			wantMode = c.pre[op.A[0]].Mode
		}
	case "GobDecode":
		if pre.Prec == 0 || len(op.B) == 0 {
			modeFree = true // mode comes from the payload (or the receiver is reset by an empty payload)
		}
	}
	if c.res.Failed && (op.Name == "GobDecode" || op.Name == "GobCopy") {
		modeFree = true // "valid but not defined"
	}
	if !modeFree && post.Mode != wantMode {
		return fail("mode-changed", "rounding mode of the receiver changed from %d to %d (documented: %d)", pre.Mode, post.Mode, wantMode)
	}

	// ---- precision ----
	if c.res.Panicked {
		if pre.Prec != 0 && post.Prec != pre.Prec {
			return fail("prec-changed", "non-zero precision %d changed to %d by an operation that panicked", pre.Prec, post.Prec)
		}
		return nil
	}
	switch op.Name {
	case "SetPrec":
		return nil // explicit setter; its rounding is C01's subject
	case "Copy", "SetMantExp", "MantExp":
		if want := c.pre[op.A[0]].Prec; post.Prec != want {
			return fail("prec-not-copied", "precision %d, documented to copy the operand's precision %d", post.Prec, want)
		}
		return nil
	case "GobDecode":
		if len(op.B) == 0 || c.res.Failed {
			return nil
		}
	}
	if c.res.Failed {
		if op.Name == "GobCopy" || op.Name == "GobDecode" {
			return nil
		}
		// failed parse: "valid but not defined" - only stickiness of a non-zero precision
		if pre.Prec != 0 && post.Prec != pre.Prec {
			return fail("prec-changed", "non-zero precision %d changed to %d by a failed call", pre.Prec, post.Prec)
		}
		return nil
	}
	if pre.Prec != 0 {
		if post.Prec != pre.Prec {
			return fail("prec-changed", "non-zero precision %d changed to %d", pre.Prec, post.Prec)
		}
		return nil
	}
	// precision was 0: documented value
	o.cnt["zero_prec_steps"]++
	var want []uint
	switch op.Name {
	case "Add", "Sub", "Mul", "Quo", "FMA", "Sqrt", "Set", "Neg", "Abs":
		want = []uint{maxPrec(c)}
	case "SetInt64", "SetUint64":
		want = []uint{decimal.DefaultDecimalPrec}
	case "SetFloat64":
		want = []uint{17}
	case "SetInt":
		d := uint(len(strings.TrimLeft(strings.TrimPrefix(op.S, "-"), "0")))
		m := d
		if m < decimal.DefaultDecimalPrec {
			m = decimal.DefaultDecimalPrec
		}
		want = []uint{decimal.DefaultDecimalPrec, d, m}
	case "Parse", "SetString", "UnmarshalText", "UnmarshalJSON", "Scan", "Sscanf", "TextCopy", "JSONCopy":
		if op.Name == "UnmarshalJSON" && strings.TrimSpace(op.S) == "null" {
			return nil // encoding/json: a JSON null is a no-op, the value is left alone
		}
		want = []uint{decimal.DefaultDecimalPrec}
	case "GobCopy":
		want = []uint{c.pre[op.A[0]].Prec}
	case "SetInf", "SetMode":
		want = []uint{0}
	default:
		return nil // SetRat, SetFloat, SetBitsExp, GobDecode, BitsSelf, BitsEdit: not named by the property
	}
	for _, p := range want {
		if post.Prec == p {
			return nil
		}
	}
	switch op.Name {
	case "Parse", "SetString", "UnmarshalText", "UnmarshalJSON", "Scan", "Sscanf", "TextCopy", "JSONCopy":
		if post.Prec == 0 && post.Form == 2 {
			// an "Inf" literal is stored without touching the precision (Prec:
			// "may be 0 for |x| == 0 and |x| == Inf"), as math/big does
			return nil
		}
	}
	return fail("prec-default-wrong", "receiver precision was 0 and became %d; documented value(s) %v", post.Prec, want)
}

// ---------------------------------------------------------------------------
// C10: independence from aliasing and from the receiver's past (shadow execution).

type oracleC10 struct {
	cnt        map[string]int
	shCtx      *dctx.Context
	preLatched bool
	accUnknown bool // aliased context operation whose receiver-operand was rounded first
}

// ctxLatched reports whether the context holds a pending error (read-only peek).
func ctxLatched(c *dctx.Context) bool {
	// the field of type error, whatever its name
	v := reflect.ValueOf(c).Elem()
	errT := reflect.TypeOf((*error)(nil)).Elem()
	for i := 0; i < v.NumField(); i++ {
		if f := v.Field(i); f.Type() == errT {
			return !f.IsNil()
		}
	}
	return false
}

func (o *oracleC10) monitor() func(task, op int, site uint32) string { return nil }
func (o *oracleC10) counters() map[string]int                        { return o.cnt }

// before runs the step on fresh memory: deep copies of the operands taken
// before the live call, a zero receiver carrying only the live receiver's
// precision and mode, a clean pool.
func (o *oracleC10) before(c *stepCtx) {
	op := c.op
	c.shRes = nil
	o.accUnknown = false
	if op.Name == "IntTo" || op.Name == "RatTo" || op.Name == "FloatTo" {
		// conversions into a caller-supplied destination: the destination is the
		// receiver of the conversion; the reference run gets a fresh one carrying
		// only the precision and mode (big.Float)
		sw := &World{V: make([]*decimal.Decimal, len(c.w.V))}
		sw.V[op.A[0]] = new(decimal.Decimal).Copy(c.w.V[op.A[0]])
		if op.Name == "FloatTo" && c.w.BF != nil {
			sw.BF = new(big.Float).SetMode(c.w.BF.Mode())
			if p := c.w.BF.Prec(); p != 0 {
				sw.BF.SetPrec(p)
			}
		}
		var r Result
		o.shadow(c, func() { r = execOp(sw, op) })
		c.shRes = &r
		o.cnt["reused_destination_steps"]++
		return
	}
	if op.Z < 0 && len(op.A) > 0 && !strings.HasPrefix(op.Name, "c.") && opInfo[op.Name].nargs == len(op.A) {
		// getters: what they return is a function of the observable value of their
		// operand(s), whatever history produced it (no cached or stale internal
		// field may show through): same call on operands rebuilt from scratch
		sw := &World{V: make([]*decimal.Decimal, len(c.w.V))}
		for _, a := range op.A {
			if sw.V[a] == nil {
				var y *decimal.Decimal
				// (the bytes of an encoding are not canonical: a mantissa may be sent
				// with or without its low zero words)
				minimal := c.idx%2 == 1 && op.Name != "GobEncode"
				verifrt.Shadow(func() { y = rebuild(c.w.V[a], minimal) })
				if y == nil {
					return
				}
				sw.V[a] = y
			}
		}
		var r Result
		o.shadow(c, func() { r = execOp(sw, op) })
		c.shRes = &r
		o.cnt["getter_steps_on_rebuilt_operands"]++
		return
	}
	if op.Z < 0 || !opInfo[op.Name].writes {
		return
	}
	sw := &World{V: make([]*decimal.Decimal, len(c.w.V)+1)}
	for _, a := range op.A {
		if sw.V[a] == nil {
			sw.V[a] = new(decimal.Decimal).Copy(c.w.V[a])
			if c.idx%4 == 3 && a != op.Z {
				// same value and attributes, shortest mantissa (no low-order zero words)
				var y *decimal.Decimal
				verifrt.Shadow(func() { y = rebuild(c.w.V[a], true) })
				if y != nil {
					sw.V[a] = y
					o.cnt["operands_rebuilt_minimal"]++
				}
			}
		}
	}
	z := c.w.V[op.Z]
	var z2 *decimal.Decimal
	if opInfo[op.Name].readsZ {
		z2 = new(decimal.Decimal).Copy(z)
	} else {
		z2 = new(decimal.Decimal).SetMode(z.Mode())
		if p := z.Prec(); p != 0 {
			z2.SetPrec(p)
		}
	}
	if c.w.Ctx != nil {
		cc := *c.w.Ctx // same precision, mode and pending error as the live context
		sw.Ctx = &cc
		o.shCtx = &cc
		o.preLatched = ctxLatched(c.w.Ctx)
	}
	n := len(c.w.V)
	sw.V[n] = z2
	sop := *op
	sop.Z = n
	aliased := false
	for _, a := range op.A {
		if a == op.Z {
			aliased = true
		}
	}
	for i := range op.A {
		for j := i + 1; j < len(op.A); j++ {
			if op.A[i] == op.A[j] {
				aliased = true
			}
		}
	}
	if aliased {
		// de-alias completely: every operand position gets its own copy
		sop.A = make([]int, len(op.A))
		for i, a := range op.A {
			cp := new(decimal.Decimal).Copy(c.w.V[a])
			if a == op.Z && strings.HasPrefix(op.Name, "c.") && c.w.Ctx != nil {
				// package context: "rounding occurs *before* doing the operation, as a
				// result, if z is also one of the arguments ..." - the documented meaning
				// of an aliased context operation is the operation on z rounded to the
				// context first
				cp.SetMode(c.w.Ctx.Mode()).SetPrec(c.w.Ctx.Prec())
				if cp.Acc() != decimal.Exact {
					// the live result's accuracy also accounts for this first rounding
					o.accUnknown = true
				}
				o.cnt["aliased_context_steps"]++
			}
			sw.V = append(sw.V, cp)
			sop.A[i] = len(sw.V) - 1
		}
		o.cnt["aliased_steps"]++
	}
	var r Result
	o.shadow(c, func() { r = execOp(sw, &sop) })
	c.shRes = &r
	c.shObs = observe(sw.V[n])
}

// shadow runs the reference execution on fresh memory; in about one scenario out
// of three also from a cold start of the package-level state (tables, caches and
// memos the library may keep between calls), which is put back afterwards.
func (o *oracleC10) shadow(c *stepCtx, f func()) {
	// (half of the scenarios that inherit the process's history, one in eight of the others)
	if b := c.sc.Seed % 64; !(b > 32 && b%2 == 1 || b%8 == 1) {
		verifrt.Shadow(f)
		return
	}
	o.cnt["cold_start_reference_steps"]++
	saved := decimal.VerifSaveGlobals()
	decimal.VerifResetGlobals()
	defer decimal.VerifLoadGlobals(saved)
	verifrt.Shadow(f)
}

// rebuild returns a Decimal that has everything observable in common with x
// (value, sign, precision, mode, accuracy) and nothing else: it is decoded from
// x's encoding into a zero Decimal. minimal: without the low-order zero words
// x's mantissa may carry (two Decimals with the same value, one computed, one
// parsed, differ in that).
func rebuild(x *decimal.Decimal, minimal bool) *decimal.Decimal {
	defer func() { _ = recover() }()
	if x.Prec() > maxWorkPrec {
		return nil
	}
	enc, err := x.GobEncode()
	if err != nil {
		return nil
	}
	enc = ownBytes(enc)
	if minimal && len(enc) > 18 {
		// same value and attributes with the shortest mantissa that holds it: the
		// encoding lists the words most significant first and a missing low word
		// is a zero word
		for len(enc) > 18 {
			zero := true
			for _, b := range enc[len(enc)-8:] {
				zero = zero && b == 0
			}
			if !zero {
				break
			}
			enc = enc[:len(enc)-8]
		}
	}
	y := new(decimal.Decimal)
	if y.GobDecode(enc) != nil {
		return nil
	}
	return y
}

func (o *oracleC10) after(c *stepCtx) *ViolationRec {
	if c.shRes == nil || c.res.Skipped {
		return nil
	}
	if c.shRes.Timeout {
		o.cnt["shadow_timeouts"]++
		return &ViolationRec{Class: "infra-shadow-timeout", Oracle: "shadow-execution", Msg: "the reference execution on fresh memory exceeded its step budget\n  " + opDesc(c), Sig: "infra"}
	}
	op := c.op
	o.cnt["shadow_steps"]++
	live, sh := c.res, c.shRes
	fail := func(class, f string, a ...interface{}) *ViolationRec {
		return &ViolationRec{Class: class, Oracle: "shadow-execution", Msg: fmt.Sprintf(f, a...) + "\n  " + opDesc(c), Sig: class + ":" + op.Name}
	}
	if live.Panicked != sh.Panicked || (live.Panicked && (live.PanicTyp != sh.PanicTyp || live.PanicMsg != sh.PanicMsg)) {
		return fail("panic-depends-on-aliasing-or-history", "live call: panicked=%v %s %q; same call on fresh memory: panicked=%v %s %q",
			live.Panicked, live.PanicTyp, live.PanicMsg, sh.Panicked, sh.PanicTyp, sh.PanicMsg)
	}
	if live.Panicked {
		return nil // value undefined after ErrNaN; validity is C04/C08
	}
	if live.Failed != sh.Failed {
		return fail("failure-depends-on-aliasing-or-history", "live call reported failure=%v, same call on fresh memory failure=%v", live.Failed, sh.Failed)
	}
	if live.Failed {
		return nil // "valid but not defined"
	}
	if strings.HasPrefix(op.Name, "c.") && c.w.Ctx != nil && o.shCtx != nil {
		ll, sl := ctxLatched(c.w.Ctx), ctxLatched(o.shCtx)
		if ll != sl {
			return fail("latch-depends-on-aliasing-or-history", "live context latched=%v, same call on fresh memory latched=%v", ll, sl)
		}
		if ll {
			// either this call produced a NaN (the receiver's value is documented as
			// undefined) or an error was already pending (the call is a no-op by
			// definition and leaves the receiver's previous contents in place)
			return nil
		}
	}
	if op.Z < 0 {
		if live.Ret != sh.Ret {
			if op.Name == "IntTo" || op.Name == "RatTo" || op.Name == "FloatTo" {
				return fail("result-depends-on-aliasing-or-history", "conversion into a destination used before = %q\n  into a fresh destination             = %q", live.Ret, sh.Ret)
			}
			return fail("result-depends-on-aliasing-or-history", "on the operand(s) as the history left them  = %q\n  on operand(s) rebuilt from their observable value = %q", live.Ret, sh.Ret)
		}
		return nil
	}
	lz, sz := c.post[op.Z], c.shObs
	if o.accUnknown {
		lz.Acc, sz.Acc = 0, 0
	}
	if lz.String()+lz.Digits != sz.String()+sz.Digits {
		return fail("result-depends-on-aliasing-or-history", "live receiver   = %s\n  on fresh memory = %s", lz, sz)
	}
	if live.Ret != sh.Ret && op.Name != "GobCopy" {
		return fail("result-depends-on-aliasing-or-history", "return values differ: live %q, fresh memory %q", live.Ret, sh.Ret)
	}
	return nil
}

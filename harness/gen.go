package main

import (
	"math"
	"math/big"
	mrand "math/rand"
	"math/rand/v2"
	"strconv"
	"strings"
)

// rng wraps the single PRNG a generator draws from. Sub-streams are derived by
// fixed labels, never by iteration order.
type rng struct{ *rand.Rand }

func newRng(seed uint64, label uint64) rng {
	return rng{rand.New(rand.NewPCG(seed, label^0x9e3779b97f4a7c15))}
}

func (r rng) intn(n int) int {
	if n <= 0 {
		return 0
	}
	return r.IntN(n)
}
func (r rng) rangeI(lo, hi int) int { return lo + r.intn(hi-lo+1) }
func (r rng) chance(p float64) bool { return r.Float64() < p }
func (r rng) pick(xs ...int) int    { return xs[r.intn(len(xs))] }
func (r rng) pickS(xs ...string) string {
	return xs[r.intn(len(xs))]
}

var modes = []int{0, 1, 2, 3, 4, 5}

// genWord draws one word below the base from an edge-biased mix.
func (r rng) genWord() uint64 {
	switch r.intn(10) {
	case 0:
		return 0
	case 1:
		return wordBase - 1
	case 2:
		return wordBase / 10 // 10^18
	case 3:
		return wordBase / 2
	case 4:
		return uint64(r.intn(10))
	case 5:
		// power of ten
		p := uint64(1)
		for i := r.intn(19); i > 0; i-- {
			p *= 10
		}
		return p
	case 6:
		return wordBase - 1 - uint64(r.intn(3))
	}
	return r.Uint64() % wordBase
}

// genWords returns n little-endian words with a normalized (>= 10^18) top word.
// style: 0 random mix, 1 all nines, 2 leading 1 then zeros, 3 runs of 0/9,
// 4 random uniform, 5 near-equal leading words (forces quotient correction),
// 6 round words, 7 small words at binary/decimal boundaries.
func (r rng) genWords(n int, style int) []uint64 {
	if n < 1 {
		n = 1
	}
	w := make([]uint64, n)
	switch style {
	case 1:
		for i := range w {
			w[i] = wordBase - 1
		}
	case 2:
		w[n-1] = wordBase / 10
		if n > 1 && r.chance(0.5) {
			w[0] = uint64(1 + r.intn(9))
		}
	case 3:
		cur := uint64(0)
		for i := range w {
			if r.intn(4) == 0 {
				if cur == 0 {
					cur = wordBase - 1
				} else {
					cur = 0
				}
			}
			w[i] = cur
		}
	case 4:
		for i := range w {
			w[i] = r.Uint64() % wordBase
		}
	case 5:
		for i := range w {
			w[i] = r.Uint64() % wordBase
		}
		t := wordBase/2 + r.Uint64()%(wordBase/2)
		w[n-1] = t
		if n > 1 {
			w[n-2] = t - uint64(r.intn(2))
		}
		if n > 2 {
			w[n-3] = wordBase - 1
		}
	case 6:
		// round words: sums and carries land exactly on the word base
		// (6e18 + 4e18, 1 + (10^19-1), 2*5e18), multiplier words 0 and 1
		alphabet := []uint64{0, 0, 1, 1, 2, wordBase - 1, wordBase - 2, wordBase / 2, wordBase / 10, 3 * (wordBase / 10), 4 * (wordBase / 10),
			6 * (wordBase / 10), 7 * (wordBase / 10), 9 * (wordBase / 10), wordBase/2 - 1, wordBase/2 + 1}
		for i := range w {
			w[i] = alphabet[r.intn(len(alphabet))]
		}
	case 7:
		// small words around the places where the binary and the decimal view of a
		// word part: sqrt(10^19), 2^32, 2^63, 2^64/10^k - squares and products of
		// such words fit 64 bits but not one decimal word, or just do
		marks := []uint64{3162277660, 4294967295, 4294967296, 1 << 31, 1844674407, 18446744073, 9223372036854775807 % wordBase, 9223372036854775808 % wordBase, 1 << 62, 2147483647}
		for i := range w {
			switch r.intn(4) {
			case 0:
				w[i] = r.Uint64() % wordBase
			case 1:
				w[i] = uint64(r.intn(1 << 20))
			default:
				m := marks[r.intn(len(marks))]
				w[i] = (m + uint64(r.intn(5)) - 2) % wordBase
			}
		}
	default:
		for i := range w {
			w[i] = r.genWord()
		}
	}
	// normalize top word
	top := w[n-1]
	if top < wordBase/10 {
		top = wordBase/10 + top%(wordBase-wordBase/10)
	}
	if r.chance(0.25) {
		top = wordBase/2 + top%(wordBase/2) // divisor already "normalized" for Knuth D
	}
	w[n-1] = top
	if r.chance(0.15) {
		// trailing zero words (value equal to a shorter mantissa)
		for i := 0; i < n-1 && i < 1+r.intn(3); i++ {
			w[i] = 0
		}
	}
	return w
}

// genLen draws a mantissa length in words for a size class:
// 0 tiny (1-2), 1 small (1-4), 2 medium (4-24), 3 large (20-70), 4 huge (60-130), 5 giant (170-360).
func (r rng) genLen(class int) int {
	switch class {
	case 0:
		return r.rangeI(1, 2)
	case 1:
		return r.rangeI(1, 4)
	case 2:
		return r.rangeI(4, 24)
	case 3:
		return r.rangeI(20, 70)
	case 4:
		return r.rangeI(60, 130)
	default:
		return r.rangeI(170, 360)
	}
}

// genPrec draws a precision with emphasis on word boundaries; nwords is a hint.
func (r rng) genPrec(nwords int, allowZero bool) uint32 {
	if allowZero && r.chance(0.12) {
		return 0
	}
	switch r.intn(6) {
	case 0:
		return uint32(1 + r.intn(5))
	case 1:
		k := 1 + r.intn(nwords+1)
		return uint32(k*wordDigits + r.pick(-1, 0, 1))
	case 2:
		return uint32(r.pick(16, 17, 19, 20, 34, 38, 57))
	case 3:
		return uint32(1 + r.intn(nwords*wordDigits+20))
	case 4:
		return uint32(nwords * wordDigits)
	}
	return uint32(1 + r.intn(3*wordDigits))
}

func (r rng) genExp() int32 {
	switch r.intn(12) {
	case 0:
		return math.MaxInt32 - int32(r.intn(3))
	case 1:
		return math.MinInt32 + int32(r.intn(3))
	case 2:
		return int32(r.rangeI(-2000000000, 2000000000))
	case 3, 4:
		return 0
	case 5:
		return int32(r.rangeI(-400, 400))
	}
	return int32(r.rangeI(-40, 40))
}

// genVar draws a variable spec. class selects the size; special controls the
// probability of ±0/±Inf.
func (r rng) genVar(class int, special float64, allowZeroPrec bool) VarSpec {
	v := VarSpec{Mode: uint8(r.intn(6)), Neg: r.chance(0.4)}
	if r.chance(special) {
		v.Form = r.pick(0, 2)
		v.Prec = r.genPrec(2, true)
		return v
	}
	v.Form = 1
	n := r.genLen(class)
	v.Words = r.genWords(n, r.pick(0, 0, 0, 1, 2, 3, 4, 4, 5, 6, 7))
	v.Exp = r.genExp()
	if allNines(v.Words) && r.chance(0.35) {
		// all nines at the top of the exponent range: rounding up must give an infinity
		v.Exp = math.MaxInt32
	}
	v.Prec = r.genPrec(n, false)
	if r.chance(0.5) {
		v.Prec = uint32(n * wordDigits) // keep all digits
	}
	if r.chance(0.25) {
		v.Dirty = n + 1 + r.intn(2*n+4)
		v.Pattern = r.intn(3)
	}
	return v
}

// moderate exponent variant for ops where huge exponents only produce overflow
func (r rng) tameExp(v *VarSpec) {
	if v.Form == 1 && (v.Exp > 1<<20 || v.Exp < -(1<<20)) && r.chance(0.8) {
		v.Exp = int32(r.rangeI(-60, 60))
	}
}

// genKnobs draws the tuning thresholds: shipped values with probability
// pShipped, else lowered so that medium operands reach Karatsuba, the
// Karatsuba square and recursive division.
func (r rng) genKnobs(pShipped float64) [4]int {
	if r.chance(pShipped) {
		return [4]int{}
	}
	k := [4]int{r.rangeI(2, 40), r.rangeI(1, 12), 0, r.rangeI(4, 100)}
	k[2] = r.rangeI(2, 60)
	if r.chance(0.5) {
		// aggressive: everything as low as the algorithms permit
		k = [4]int{r.rangeI(2, 6), r.rangeI(1, 4), r.rangeI(2, 8), r.rangeI(4, 10)}
	}
	return k
}

func decimalLiteral(r rng, maxDigits int) string {
	var b strings.Builder
	if r.chance(0.3) {
		b.WriteByte("+-"[r.intn(2)])
	}
	n := 1 + r.intn(maxDigits)
	dot := -1
	if r.chance(0.6) {
		dot = r.intn(n + 1)
	}
	if r.chance(0.08) {
		// whole words of leading zeros (the scanner stores 19-digit groups)
		b.WriteString(strings.Repeat("0", r.pick(18, 19, 20, 37, 38, 39, 57)))
		if dot < 0 && r.chance(0.3) {
			b.WriteByte('.')
			b.WriteString(strings.Repeat("0", r.pick(1, 18, 19, 20, 38)))
		}
	}
	for i := 0; i < n; i++ {
		if i == dot {
			b.WriteByte('.')
		}
		switch r.intn(6) {
		case 0:
			b.WriteByte('0')
		case 1:
			b.WriteByte('9')
		default:
			b.WriteByte(byte('0' + r.intn(10)))
		}
	}
	if dot == n {
		b.WriteByte('.')
	}
	if r.chance(0.4) {
		b.WriteByte("eE"[r.intn(2)])
		if r.chance(0.5) {
			b.WriteByte("+-"[r.intn(2)])
		}
		b.WriteString(strconv.Itoa(r.pick(0, 1, 5, 19, 38, 300, 99999, 2147483647, 2147483600)))
	}
	return b.String()
}

// ---------------------------------------------------------------------------
// Constructed divisions: dividend and divisor built so that the long-division
// code meets the situations random operands practically never produce -
// quotient digits of base-1, estimates that are one too large (add-back),
// intermediate remainders with a zero top word followed by a large word, exact
// divisions, remainders of v-1.

func wordsToBig(w []uint64) *big.Int {
	z := new(big.Int)
	b := new(big.Int).SetUint64(wordBase)
	for i := len(w) - 1; i >= 0; i-- {
		z.Mul(z, b)
		z.Add(z, new(big.Int).SetUint64(w[i]))
	}
	return z
}

func bigToWords(x *big.Int) []uint64 {
	var w []uint64
	b := new(big.Int).SetUint64(wordBase)
	t := new(big.Int).Set(x)
	r := new(big.Int)
	for t.Sign() > 0 {
		t.QuoRem(t, b, r)
		w = append(w, r.Uint64())
	}
	return w
}

// genDivision returns (dividend words, divisor words) with n divisor words and a
// quotient of about m words. Both are normalised the way VarSpec needs them
// (non-zero top word; buildVar normalises the leading digit itself).
func (r rng) genDivision(n, m int) (u, v []uint64) {
	v = r.genWords(n, r.pick(0, 1, 3, 4, 5, 5))
	if r.chance(0.5) {
		v[n-1] = wordBase/2 + uint64(r.intn(9)) // no scaling needed by Knuth D
	}
	if n > 1 && r.chance(0.4) {
		v[n-2] = r.pick64(0, wordBase-1, v[n-1])
	}
	V := wordsToBig(v)
	base := new(big.Int).SetUint64(wordBase)
	acc := new(big.Int) // running value: the dividend built so far
	blocks := 1 + r.intn(3)
	for b := 0; b < blocks; b++ {
		// quotient part for this block
		ql := 1 + r.intn(m/blocks+1)
		q := r.genWords(ql, r.pick(0, 1, 3, 4))
		if r.chance(0.4) {
			q[r.intn(ql)] = wordBase - 1
		}
		// remainder pattern (< V)
		var R *big.Int
		switch r.intn(6) {
		case 0:
			R = new(big.Int)
		case 1:
			R = new(big.Int).Sub(V, big.NewInt(1))
		case 2, 3:
			// zero top word, then a word >= the divisor's top word
			rw := r.genWords(n, 4)
			rw[n-1] = 0
			if n > 1 {
				rw[n-2] = r.pick64(wordBase-1, v[n-1], v[n-1]+1)
				if rw[n-2] >= wordBase {
					rw[n-2] = wordBase - 1
				}
			}
			R = wordsToBig(rw)
		default:
			R = new(big.Int).Rand(randFor(r), V)
		}
		if R.Cmp(V) >= 0 {
			R.Mod(R, V)
		}
		// acc = (acc * base^len + q) ... the previous remainder is carried into this block
		shift := new(big.Int).Exp(base, big.NewInt(int64(ql)), nil)
		acc.Mul(acc, shift)
		acc.Add(acc, new(big.Int).Mul(wordsToBig(q), big.NewInt(1)))
		// dividend so far = acc*V + R is formed at the end of the block chain
		if b == blocks-1 {
			acc.Mul(acc, V)
			acc.Add(acc, R)
		} else {
			// fold the remainder in by making the next block's quotient continue from it:
			// (acc*V + R) * base^k + low  ==> keep as explicit value
			acc.Mul(acc, V)
			acc.Add(acc, R)
			k := r.pick(n/2, n/2+1, n, n-1, 1)
			if k < 1 {
				k = 1
			}
			low := wordsToBig(r.genWords(k, r.pick(0, 3, 4)))
			acc.Mul(acc, new(big.Int).Exp(base, big.NewInt(int64(k)), nil))
			acc.Add(acc, low)
			// next iteration multiplies acc by V again; to keep the construction a plain
			// integer we stop treating acc as a quotient: finish here
			u = bigToWords(acc)
			if len(u) == 0 {
				u = []uint64{1}
			}
			return u, v
		}
	}
	u = bigToWords(acc)
	if len(u) == 0 {
		u = []uint64{1}
	}
	return u, v
}

func (r rng) pick64(xs ...uint64) uint64 { return xs[r.intn(len(xs))] }

type rngSrc struct{ r rng }

func (s rngSrc) Int63() int64 { return int64(s.r.Uint64() >> 1) }
func (s rngSrc) Seed(int64)   {}

func randFor(r rng) *mrand.Rand { return mrand.New(rngSrc{r}) }

func allNines(w []uint64) bool {
	for _, x := range w {
		if x != wordBase-1 {
			return false
		}
	}
	return len(w) > 0
}

// Package instrument builds the instrumented scratch copy of the repository:
// a yield point before every statement, the sync.Pool seam, the knob seam, the
// overlay file and the verifrt runtime. It never writes to the source tree.
package instrument

import (
	"bytes"
	"encoding/json"
	"fmt"
	"go/ast"
	"go/build"
	"go/importer"
	"go/parser"
	"go/token"
	"go/types"
	"os"
	"path/filepath"
	"regexp"
	"sort"
	"strings"
)

// Site describes one yield point.
type Site struct {
	ID   int    `json:"id"`
	File string `json:"file"`
	Line int    `json:"line"`
	Func string `json:"func"`
	// Atomic: the statement performs a sync/atomic operation; the schedule
	// generators treat the yield right after it as a preferred preemption point.
	Atomic bool `json:"atomic,omitempty"`
}

// Info is what the instrumenter reports.
type Info struct {
	Module       string      `json:"module"`
	Sites        []Site      `json:"sites"`
	PoolGets     int         `json:"pool_gets"`
	PoolPuts     int         `json:"pool_puts"`
	SyncRewrite  int         `json:"sync_rewrites"`
	AtomicSites  int         `json:"atomic_sites"`
	AtomicArgs   int         `json:"atomic_args"` // value operands of sync/atomic calls wrapped in SyncArg
	AtomicVars   []string    `json:"atomic_vars"`
	AtomicHeld   []string    `json:"atomic_held"` // package-level atomic.Value / atomic.Pointer whose contents are monitored
	ScratchFuncs []scratchFn `json:"-"`
	Knobs        []string    `json:"knobs"`
	Globals      []string    `json:"globals"`
	Unmonitored  []string    `json:"globals_unmonitored"`
	Files        int         `json:"files"`
	Notes        []string    `json:"notes"`
}

type scratchFn struct {
	Name string
	Sig  *types.Signature
}

type edit struct {
	pos, end int
	text     string
}

type fileJob struct {
	rel   string
	src   []byte
	file  *ast.File
	edits []edit
	pkg   string // "" root, "context"
	atom  []int  // source offsets of sync/atomic operations
}

var modRe = regexp.MustCompile(`(?m)^module\s+(\S+)`)

// Run instruments repo into out (which must exist and be empty); rtDir holds the
// verifrt sources.
func Run(repo, out, rtDir string) (*Info, error) {
	info := &Info{}
	gomod, err := os.ReadFile(filepath.Join(repo, "go.mod"))
	if err != nil {
		return nil, err
	}
	m := modRe.FindSubmatch(gomod)
	if m == nil {
		return nil, fmt.Errorf("no module line in go.mod")
	}
	info.Module = string(m[1])

	fset := token.NewFileSet()
	var jobs []*fileJob
	for _, sub := range []string{"", "context"} {
		dir := filepath.Join(repo, sub)
		ents, err := os.ReadDir(dir)
		if err != nil {
			if sub != "" {
				continue
			}
			return nil, err
		}
		if err := os.MkdirAll(filepath.Join(out, sub), 0o755); err != nil {
			return nil, err
		}
		for _, e := range ents {
			n := e.Name()
			if e.IsDir() || strings.HasPrefix(n, ".") {
				continue
			}
			rel := filepath.Join(sub, n)
			switch {
			case strings.HasSuffix(n, "_test.go"):
				continue
			case strings.HasSuffix(n, ".go"):
				src, err := os.ReadFile(filepath.Join(dir, n))
				if err != nil {
					return nil, err
				}
				f, err := parser.ParseFile(fset, filepath.Join(dir, n), src, parser.ParseComments)
				if err != nil {
					return nil, fmt.Errorf("parse: %v", err)
				}
				jobs = append(jobs, &fileJob{rel: rel, src: src, file: f, pkg: sub})
			case strings.HasSuffix(n, ".s") || strings.HasSuffix(n, ".h") || n == "go.mod" || n == "go.sum":
				b, err := os.ReadFile(filepath.Join(dir, n))
				if err != nil {
					return nil, err
				}
				if err := os.WriteFile(filepath.Join(out, rel), b, 0o644); err != nil {
					return nil, err
				}
			}
		}
	}
	info.Files = len(jobs)

	// any other directory of the module (a change may add a sub-package) is copied
	// verbatim, without yield points, so that the tree still builds
	err = filepath.Walk(repo, func(p string, fi os.FileInfo, werr error) error {
		if werr != nil {
			return nil
		}
		rel, _ := filepath.Rel(repo, p)
		if fi.IsDir() {
			if rel != "." && (strings.HasPrefix(fi.Name(), ".") || fi.Name() == "testdata" || fi.Name() == "verifrt") {
				return filepath.SkipDir
			}
			return nil
		}
		dir := filepath.Dir(rel)
		if dir == "." || dir == "context" {
			return nil
		}
		n := fi.Name()
		if strings.HasSuffix(n, "_test.go") || !(strings.HasSuffix(n, ".go") || strings.HasSuffix(n, ".s") || strings.HasSuffix(n, ".h")) {
			return nil
		}
		b, rerr := os.ReadFile(p)
		if rerr != nil {
			return rerr
		}
		if merr := os.MkdirAll(filepath.Join(out, dir), 0o755); merr != nil {
			return merr
		}
		info.Notes = append(info.Notes, "copied without instrumentation: "+rel)
		return os.WriteFile(filepath.Join(out, rel), b, 0o644)
	})
	if err != nil {
		return nil, err
	}

	// --- type-check both packages (files selected by build constraints) ---
	ctx := build.Default
	ctx.BuildTags = append(ctx.BuildTags, "verif")
	var overlay string
	imp := &modImporter{base: importer.ForCompiler(fset, "source", nil), module: info.Module, pkgs: map[string]*types.Package{}}
	for _, sub := range []string{"", "context"} {
		var files []*ast.File
		var sel []*fileJob
		for _, j := range jobs {
			if j.pkg != sub {
				continue
			}
			ok, err := ctx.MatchFile(filepath.Join(repo, sub), filepath.Base(j.rel))
			if err != nil {
				return nil, err
			}
			if ok {
				files = append(files, j.file)
				sel = append(sel, j)
			}
		}
		if len(files) == 0 {
			continue
		}
		tinfo := &types.Info{
			Selections: map[*ast.SelectorExpr]*types.Selection{},
			Types:      map[ast.Expr]types.TypeAndValue{},
			Defs:       map[*ast.Ident]types.Object{},
			Uses:       map[*ast.Ident]types.Object{},
		}
		conf := types.Config{Importer: imp, FakeImportC: true}
		var terrs []string
		conf.Error = func(err error) { terrs = append(terrs, err.Error()) }
		path := info.Module
		if sub != "" {
			path += "/" + sub
		}
		pkg, _ := conf.Check(path, fset, files, tinfo)
		if len(terrs) > 0 {
			return nil, fmt.Errorf("type check of %s failed (tree does not compile?): %s", path, strings.Join(terrs[:min(len(terrs), 5)], "; "))
		}
		if sub == "" {
			imp.pkgs[path] = pkg
			rootPkg = pkg
		}
		curPkg = pkg
		for _, j := range sel {
			if err := seamEdits(fset, j, tinfo, info); err != nil {
				return nil, err
			}
		}
		if sub == "" {
			overlay = genOverlay(pkg, info)
		}
	}

	// --- yield points ---
	id := 0
	for _, j := range jobs {
		n0 := id
		yieldEdits(fset, j, &id, info)
		if id > n0 || len(j.edits) > 0 {
			p := fset.Position(j.file.Name.End()).Offset
			j.edits = append(j.edits, edit{p, p, fmt.Sprintf("; import verifrt %q", info.Module+"/verifrt")})
		}
	}

	for _, j := range jobs {
		b, err := apply(j.src, j.edits)
		if err != nil {
			return nil, fmt.Errorf("%s: %v", j.rel, err)
		}
		if err := os.WriteFile(filepath.Join(out, j.rel), b, 0o644); err != nil {
			return nil, err
		}
	}

	// --- runtime + overlay + site table ---
	rtOut := filepath.Join(out, "verifrt")
	if err := os.MkdirAll(rtOut, 0o755); err != nil {
		return nil, err
	}
	ents, err := os.ReadDir(rtDir)
	if err != nil {
		return nil, err
	}
	for _, e := range ents {
		if !strings.HasSuffix(e.Name(), ".go") || strings.HasSuffix(e.Name(), "_test.go") {
			continue
		}
		b, err := os.ReadFile(filepath.Join(rtDir, e.Name()))
		if err != nil {
			return nil, err
		}
		if e.Name() == "sites_gen.go" {
			var ab strings.Builder
			na := 0
			for _, st := range info.Sites {
				if st.Atomic {
					fmt.Fprintf(&ab, "%d, ", st.ID)
					na++
				}
			}
			info.AtomicSites = na
			b = []byte(fmt.Sprintf("package verifrt\n\n// NumSites is the number of yield sites in the instrumented copy.\nconst NumSites = %d\n\n// AtomicSiteIDs lists the statements that perform a sync/atomic operation.\nvar AtomicSiteIDs = []uint32{%s}\n", id, ab.String()))
		}
		if err := os.WriteFile(filepath.Join(rtOut, e.Name()), b, 0o644); err != nil {
			return nil, err
		}
	}
	if err := os.WriteFile(filepath.Join(out, "zz_verif_overlay.go"), []byte(overlay), 0o644); err != nil {
		return nil, err
	}
	sb, _ := json.Marshal(info)
	if err := os.WriteFile(filepath.Join(out, "verif_sites.json"), sb, 0o644); err != nil {
		return nil, err
	}
	return info, nil
}

var rootPkg, curPkg *types.Package

// modImporter resolves the module's own root package (imported by context) from
// the package we just checked, everything else from source.
type modImporter struct {
	base   types.Importer
	module string
	pkgs   map[string]*types.Package
}

func (m *modImporter) Import(path string) (*types.Package, error) {
	if p, ok := m.pkgs[path]; ok {
		return p, nil
	}
	return m.base.Import(path)
}

func apply(src []byte, edits []edit) ([]byte, error) {
	sort.SliceStable(edits, func(i, j int) bool {
		if edits[i].pos != edits[j].pos {
			return edits[i].pos > edits[j].pos
		}
		return edits[i].end > edits[j].end
	})
	out := append([]byte(nil), src...)
	lastPos := len(src) + 1
	for _, e := range edits {
		if e.end > lastPos {
			return nil, fmt.Errorf("overlapping edits at offset %d", e.pos)
		}
		var b bytes.Buffer
		b.Write(out[:e.pos])
		b.WriteString(e.text)
		b.Write(out[e.end:])
		out = b.Bytes()
		lastPos = e.pos
	}
	return out, nil
}

func funcName(fd *ast.FuncDecl) string {
	if fd == nil {
		return "<init>"
	}
	if fd.Recv != nil && len(fd.Recv.List) > 0 {
		t := fd.Recv.List[0].Type
		if s, ok := t.(*ast.StarExpr); ok {
			t = s.X
		}
		if id, ok := t.(*ast.Ident); ok {
			return id.Name + "." + fd.Name.Name
		}
	}
	return fd.Name.Name
}

func yieldEdits(fset *token.FileSet, j *fileJob, id *int, info *Info) {
	type span struct{ lo, hi, site int }
	var spans []span
	var curFn *ast.FuncDecl
	add := func(list []ast.Stmt) {
		for _, s := range list {
			switch s.(type) {
			case *ast.EmptyStmt, *ast.CaseClause, *ast.CommClause:
				continue
			}
			*id++
			p := fset.Position(s.Pos())
			j.edits = append(j.edits, edit{p.Offset, p.Offset, fmt.Sprintf("verifrt.Yield(%d); ", *id)})
			info.Sites = append(info.Sites, Site{ID: *id, File: j.rel, Line: p.Line, Func: funcName(curFn)})
			spans = append(spans, span{p.Offset, fset.Position(s.End()).Offset, *id})
		}
	}
	first := len(info.Sites)
	defer func() {
		for _, off := range j.atom {
			best := -1
			for i, sp := range spans {
				if sp.lo <= off && off < sp.hi && (best < 0 || sp.hi-sp.lo < spans[best].hi-spans[best].lo) {
					best = i
				}
			}
			if best >= 0 {
				info.Sites[first+best].Atomic = true
			}
		}
	}()
	for _, d := range j.file.Decls {
		fd, _ := d.(*ast.FuncDecl)
		curFn = fd
		ast.Inspect(d, func(n ast.Node) bool {
			switch x := n.(type) {
			case *ast.BlockStmt:
				add(x.List)
			case *ast.CaseClause:
				add(x.Body)
			case *ast.CommClause:
				add(x.Body)
			}
			return true
		})
	}
}

// wrapAtomicArgs opens the window between the evaluation of the value operands
// of a sync/atomic call and the call itself (the `b.next` of
// `CompareAndSwapPointer(&head, p, unsafe.Pointer(b.next))` is read before the
// swap; statement-level yields cannot separate the two): every operand that
// reads memory becomes verifrt.SyncArg(operand).(T), which yields after the
// operand was evaluated.
func wrapAtomicArgs(fset *token.FileSet, j *fileJob, ti *types.Info, info *Info, args []ast.Expr) {
	imports := map[string]string{} // path -> local name
	for _, im := range j.file.Imports {
		p := strings.Trim(im.Path.Value, `"`)
		name := ""
		if im.Name != nil {
			name = im.Name.Name
		}
		imports[p] = name
	}
	for _, a := range args {
		tv, ok := ti.Types[a]
		if !ok || tv.Value != nil || tv.IsNil() || tv.Type == nil {
			continue
		}
		if _, isIface := tv.Type.Underlying().(*types.Interface); isIface {
			continue
		}
		if _, isTuple := tv.Type.(*types.Tuple); isTuple {
			continue
		}
		reads := false
		ast.Inspect(a, func(n ast.Node) bool {
			switch y := n.(type) {
			case *ast.FuncLit:
				return false
			case *ast.SelectorExpr:
				if _, isPkg := ti.Uses[identOf(y.X)].(*types.PkgName); !isPkg {
					reads = true
				} else if v, isVar := ti.Uses[y.Sel].(*types.Var); isVar && v != nil {
					reads = true
				}
			case *ast.IndexExpr, *ast.StarExpr:
				reads = true
			case *ast.CallExpr:
				if ftv, ok := ti.Types[y.Fun]; !ok || !ftv.IsType() {
					reads = true // a real call (not a conversion)
				}
			case *ast.Ident:
				if v, isVar := ti.Uses[y].(*types.Var); isVar && v.Pkg() != nil && v.Parent() == v.Pkg().Scope() {
					reads = true // package-level variable
				}
			}
			return true
		})
		if !reads {
			continue
		}
		bad := false
		ts := types.TypeString(tv.Type, func(p *types.Package) string {
			if p == curPkg {
				return ""
			}
			name, ok := imports[p.Path()]
			if !ok {
				bad = true
				return p.Name()
			}
			if name == "" {
				return p.Name()
			}
			if name == "." || name == "_" {
				bad = true
			}
			return name
		})
		if bad {
			continue
		}
		lo, hi := fset.Position(a.Pos()).Offset, fset.Position(a.End()).Offset
		j.edits = append(j.edits, edit{lo, lo, "verifrt.SyncArg("}, edit{hi, hi, ").(" + ts + ")"})
		info.AtomicArgs++
	}
}

func identOf(e ast.Expr) *ast.Ident {
	id, _ := e.(*ast.Ident)
	return id
}

func isAtomicType(t types.Type) bool {
	if p, ok := t.(*types.Pointer); ok {
		t = p.Elem()
	}
	n, ok := t.(*types.Named)
	return ok && n.Obj().Pkg() != nil && n.Obj().Pkg().Path() == "sync/atomic"
}

func syncName(t types.Type) string {
	if p, ok := t.(*types.Pointer); ok {
		t = p.Elem()
	}
	if n, ok := t.(*types.Named); ok {
		return n.Obj().Name()
	}
	return ""
}

func isSyncType(t types.Type, name string) (ptr bool, ok bool) {
	if p, isP := t.(*types.Pointer); isP {
		t = p.Elem()
		ptr = true
	}
	n, isN := t.(*types.Named)
	if !isN || n.Obj().Pkg() == nil {
		return false, false
	}
	return ptr, n.Obj().Pkg().Path() == "sync" && n.Obj().Name() == name
}

// seamEdits rewrites sync.Pool Get/Put (and Mutex/RWMutex/Once) calls and turns
// the knob constant into a variable.
func seamEdits(fset *token.FileSet, j *fileJob, ti *types.Info, info *Info) error {
	var err error
	src := func(n ast.Node) string {
		return string(j.src[fset.Position(n.Pos()).Offset:fset.Position(n.End()).Offset])
	}
	ast.Inspect(j.file, func(n ast.Node) bool {
		switch x := n.(type) {
		case *ast.GoStmt:
			// Goroutines started by the library itself are not scheduled by the
			// simulator. For the fork-join form `go func(...) {...}(...)` the stretch
			// during which such helpers exist is executed as one atomic step: while any
			// helper is alive every yield (of the helpers and of whoever waits for them)
			// is a no-op, so the scheduler's state is never touched by two threads.
			if fl, ok := x.Call.Fun.(*ast.FuncLit); ok && fl.Body != nil {
				p := fset.Position(x.Pos()).Offset
				b := fset.Position(fl.Body.Lbrace).Offset + 1
				j.edits = append(j.edits, edit{p, p, "verifrt.GoStart(); "}, edit{b, b, " defer verifrt.GoEnd(); "})
				info.Notes = append(info.Notes, fmt.Sprintf("%s: go statement at line %d: the helper goroutine and its parent run unsimulated (atomically) until it ends", j.rel, fset.Position(x.Pos()).Line))
			} else {
				info.Notes = append(info.Notes, fmt.Sprintf("%s: go statement at line %d is not simulated (runs as a real goroutine)", j.rel, fset.Position(x.Pos()).Line))
			}
		case *ast.FuncDecl:
			if j.pkg == "" && x.Recv == nil && x.Body != nil && (x.Name.Name == "getDec" || x.Name.Name == "putDec") {
				if obj, ok := ti.Defs[x.Name].(*types.Func); ok {
					sig := obj.Type().(*types.Signature)
					isPtr := func(t types.Type) bool { _, ok := t.Underlying().(*types.Pointer); return ok }
					okShape := false
					if x.Name.Name == "getDec" {
						okShape = sig.Results().Len() == 1 && isPtr(sig.Results().At(0).Type()) && !sig.Variadic()
					} else {
						okShape = sig.Params().Len() == 1 && isPtr(sig.Params().At(0).Type()) && sig.Results().Len() == 0
					}
					if okShape {
						p := fset.Position(x.Name.End()).Offset
						j.edits = append(j.edits, edit{p, p, "__orig"})
						info.ScratchFuncs = append(info.ScratchFuncs, scratchFn{Name: x.Name.Name, Sig: sig})
					}
				}
			}
		case *ast.GenDecl:
			if x.Tok == token.CONST && len(x.Specs) == 1 && !x.Lparen.IsValid() {
				vs := x.Specs[0].(*ast.ValueSpec)
				if len(vs.Names) == 1 && vs.Names[0].Name == "divRecursiveThreshold" && j.pkg == "" {
					p := fset.Position(x.Pos()).Offset
					j.edits = append(j.edits, edit{p, p + len("const"), "var"})
					info.Knobs = append(info.Knobs, "divRecursiveThreshold")
				}
			}
		case *ast.CallExpr:
			se, ok := x.Fun.(*ast.SelectorExpr)
			if !ok {
				return true
			}
			sel := ti.Selections[se]
			if sel == nil {
				// package-level function of sync/atomic (atomic.LoadPointer, ...)
				if id, ok := se.X.(*ast.Ident); ok {
					if pn, ok := ti.Uses[id].(*types.PkgName); ok && pn.Imported().Path() == "sync/atomic" {
						j.atom = append(j.atom, fset.Position(x.Pos()).Offset)
						if len(x.Args) > 1 {
							wrapAtomicArgs(fset, j, ti, info, x.Args[1:])
						}
						// atomic.AddInt64(&counter, 1): a plain package-level variable that is
						// only ever touched through sync/atomic functions is synchronised state
						if len(x.Args) > 0 {
							if u, ok := x.Args[0].(*ast.UnaryExpr); ok && u.Op == token.AND {
								if vid, ok := u.X.(*ast.Ident); ok {
									if v, ok := ti.Uses[vid].(*types.Var); ok && v.Parent() == v.Pkg().Scope() {
										info.AtomicVars = append(info.AtomicVars, v.Name())
									}
								}
							}
						}
					}
				}
				return true
			}
			if sel.Kind() != types.MethodVal {
				return true
			}
			if isAtomicType(sel.Recv()) {
				j.atom = append(j.atom, fset.Position(x.Pos()).Offset)
				wrapAtomicArgs(fset, j, ti, info, x.Args)
				return true
			}
			recv := sel.Recv()
			// a sync primitive reached through embedded fields (struct{ sync.Mutex; ... }):
			// resolve the path to the embedded field and treat that field as the receiver
			embedded := ""
			if fnObj, ok := sel.Obj().(*types.Func); ok && len(sel.Index()) > 1 {
				if sig, ok := fnObj.Type().(*types.Signature); ok && sig.Recv() != nil {
					if _, isSync := isSyncType(sig.Recv().Type(), syncName(sig.Recv().Type())); isSync {
						t := recv
						for _, idx := range sel.Index()[:len(sel.Index())-1] {
							if p, ok := t.Underlying().(*types.Pointer); ok {
								t = p.Elem()
							}
							st, ok := t.Underlying().(*types.Struct)
							if !ok {
								embedded = ""
								break
							}
							f := st.Field(idx)
							embedded += "." + f.Name()
							t = f.Type()
						}
						if embedded != "" {
							recv = t
						}
					}
				}
			}
			for _, ty := range []string{"Pool", "Mutex", "RWMutex", "Once"} {
				ptr, ok := isSyncType(recv, ty)
				if !ok {
					continue
				}
				fn := ""
				switch ty + "." + se.Sel.Name {
				case "Pool.Get":
					fn = "PoolGet"
					info.PoolGets++
				case "Pool.Put":
					fn = "PoolPut"
					info.PoolPuts++
				case "Mutex.Lock", "RWMutex.Lock":
					fn = "MutexLock"
					info.SyncRewrite++
				case "Mutex.Unlock", "RWMutex.Unlock":
					fn = "MutexUnlock"
					info.SyncRewrite++
				case "RWMutex.RLock":
					fn = "RLock"
					info.SyncRewrite++
				case "RWMutex.RUnlock":
					fn = "RUnlock"
					info.SyncRewrite++
				case "Once.Do":
					fn = "OnceDo"
					info.SyncRewrite++
				default:
					err = fmt.Errorf("%s:%d: sync.%s.%s is not understood by the simulator", j.rel, fset.Position(x.Pos()).Line, ty, se.Sel.Name)
					return false
				}
				if len(sel.Index()) != 1 && embedded == "" {
					err = fmt.Errorf("%s:%d: sync.%s reached through an embedded field is not understood by the simulator", j.rel, fset.Position(x.Pos()).Line, ty)
					return false
				}
				recvTxt := "(" + src(se.X) + embedded + ")"
				if !ptr {
					recvTxt = "&" + recvTxt
				}
				// replace only "recv.Method(" so that the arguments (which may contain
				// function literals with their own yield points) stay untouched
				p0 := fset.Position(x.Pos()).Offset
				p1 := fset.Position(x.Lparen).Offset + 1
				txt := "verifrt." + fn + "(" + recvTxt
				if len(x.Args) > 0 {
					txt += ", "
				}
				j.edits = append(j.edits, edit{p0, p1, txt})
				return true
			}
		}
		return true
	})
	return err
}

func min(a, b int) int {
	if a < b {
		return a
	}
	return b
}

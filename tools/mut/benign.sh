#!/bin/bash
# every benign change against every check: all must exit 0
export GOFLAGS=-mod=mod GOPROXY=off GOSUMDB=off GOTOOLCHAIN=local
cd /tmp
for d in /verif/benign/*/; do
  m=$(basename $d)
  W=/tmp/bwt-$m
  git -C /repo worktree remove --force $W 2>/dev/null
  git -C /repo worktree add -q --detach $W HEAD || exit 9
  if ! git -C $W apply $d/patch.diff; then echo "[$m] PATCH DOES NOT APPLY"; git -C /repo worktree remove --force $W; continue; fi
  suite=$(cd $W && go test -vet=off -count=1 ./... 2>&1 | tail -2 | tr '\n' ' ')
  echo "[$m] suite: $suite"
  for p in ${PROPS:-C04 C08 C09 C10 C12 C17 C18 C19}; do
    out=$(/verif/bin/vcheck -repo $W -p $p -tier quick -maxviol 1 -shrink 10s -no-evidence 2>&1)
    echo "[$m] $p exit=$? $(echo "$out" | grep -c '^VIOLATION') violation lines"
  done
  git -C /repo worktree remove --force $W
done

#!/bin/bash
# every seeded change against the check of its own property
cd /tmp
for d in /verif/seeded/*/; do
  m=$(basename $d)
  p=$(python3 -c "import json;print(json.load(open('$d/meta.json')).get('breaks_property',''))")
  case "$p" in C04|C08|C09|C10|C12|C17|C18|C19) ;; *) p=${m%%-*};; esac
  case "$p" in own) p=C18;; esac
  /tmp/mut/eval.sh $d $m $p 2>&1 | grep "exit=\|DOES NOT APPLY" | cut -c1-220
done

#!/bin/bash
# full catch matrix: every seeded change x every check (quick tier)
export GOFLAGS=-mod=mod GOPROXY=off GOSUMDB=off GOTOOLCHAIN=local
for d in /verif/seeded/*/; do
  n=$(basename $d)
  W=/tmp/mwt-mx
  git -C /repo worktree remove --force $W 2>/dev/null
  git -C /repo worktree add -q $W HEAD
  (cd $W && git apply $d/patch.diff) || { echo "$n APPLYFAIL"; continue; }
  line="$n"
  for p in C04 C08 C09 C10 C12 C17 C18 C19; do
    out=$(nice -n 19 /tmp/mut/vcheck-mx -repo $W -p $p -tier quick -budget 10s -maxviol 1 -shrink 8s -no-evidence 2>&1); code=$?
    line="$line $p=$code"
  done
  echo "$line"
  git -C /repo worktree remove --force $W
done

#!/bin/bash
# usage: eval.sh <dir with patch.diff+demo> <label> <props...>
export GOFLAGS=-mod=mod GOPROXY=off GOSUMDB=off GOTOOLCHAIN=local
d=$1; label=$2; shift 2
W=/tmp/mwt-$label
git -C /repo worktree remove --force $W 2>/dev/null
git -C /repo worktree add -q $W HEAD || exit 9
cd $W
demo=$(ls $d/demo*_test.go $d/demo_test.go.txt 2>/dev/null | head -1)
pkgdir=.
if [ -n "$demo" ] && grep -q '^package context' $demo; then pkgdir=./context; fi
# demo on clean HEAD
cp $demo $pkgdir/zz_demo_test.go
clean=$(go test -vet=off -count=1 -run 'TestDemo' $pkgdir 2>&1 | tail -1)
rm $pkgdir/zz_demo_test.go
if ! git apply $d/patch.diff 2>/tmp/mut/apply-$label.log; then echo "[$label] PATCH DOES NOT APPLY: $(head -2 /tmp/mut/apply-$label.log)"; cd /; git -C /repo worktree remove --force $W; exit 0; fi
suite=$(go test -vet=off -count=1 ./... 2>&1 | tail -2 | tr '\n' ' ')
cp $demo $pkgdir/zz_demo_test.go
withp=$(timeout 600 go test -vet=off -count=1 -run 'TestDemo' $pkgdir 2>&1 | tail -1)
rm $pkgdir/zz_demo_test.go
echo "[$label] demo@HEAD: $clean | suite+patch: $suite | demo+patch: $withp"
for p in "$@"; do
  out=$(/verif/bin/vcheck -repo $W -p $p -tier ${TIER:-quick} -maxviol 1 -shrink 10s -no-evidence 2>&1)
  code=$?
  echo "[$label] $p exit=$code viol=$(echo "$out" | grep -c '^VIOLATION') :: $(echo "$out" | grep -m1 -A2 '^VIOLATION' | sed -n 3p | cut -c1-260)"
done
cd /; git -C /repo worktree remove --force $W

#!/bin/bash
# import14.sh P k "<eval lines file>"
P=$1; k=$2; log=$3
src=/tmp/sa/out14-$P/m$k; dst=/verif/seeded/$P-sn$k
mkdir -p $dst; cp $src/patch.diff $src/notes.md $dst/ 2>/dev/null; cp $src/demo_test.go $dst/demo_test.go.txt
python3 - "$P" "$k" "$log" "$dst" <<'PY'
import sys,json
P,k,log,dst=sys.argv[1:]
lines=[l.rstrip('\n') for l in open(log)]
json.dump({"id":f"{P}-sn{k}","breaks_property":P,
"origin":"independent sub-agent, thirteenth round (theme: two individually common conditions that must coincide), given only the property text and a scratch worktree",
"needs_to_manifest":"see notes.md",
"confirmed_by_me":{"command":"tools/mut/eval.sh","result_first_evaluation":lines}},open(dst+"/meta.json","w"),indent=1)
PY

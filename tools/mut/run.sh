#!/bin/bash
# usage: run.sh <name> <python-edit-file> <props...>
# applies an edit (python script operating in cwd=/tmp/mwt) to a fresh worktree, runs baseline tests + checks
export GOFLAGS=-mod=mod GOPROXY=off GOSUMDB=off GOTOOLCHAIN=local
name=$1; edit=$2; shift 2
git -C /repo worktree remove --force /tmp/mwt 2>/dev/null
git -C /repo worktree add -q /tmp/mwt HEAD || exit 9
cd /tmp/mwt && python3 $edit || { echo "EDIT FAILED $name"; exit 9; }
if ! go build ./... 2>/tmp/mut/build.log; then echo "[$name] DOES NOT COMPILE"; cat /tmp/mut/build.log | head; exit 0; fi
t=$(go test -vet=off -count=1 ./... 2>&1 | tail -3 | tr '\n' ' ')
echo "[$name] tests: $t"
for p in "$@"; do
  out=$(/verif/bin/vcheck -repo /tmp/mwt -p $p -tier ${TIER:-quick} -no-evidence 2>&1)
  echo "[$name] $p exit=$? $(echo "$out" | grep -c '^VIOLATION') violations; $(echo "$out" | grep -m1 -A3 '^VIOLATION' | cut -c1-400 | tr '\n' ' ')"
done
cd /; git -C /repo worktree remove --force /tmp/mwt

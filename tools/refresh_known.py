#!/usr/bin/env python3
"""Re-resolves the commit hashes of 'fixed' entries in known_findings.json from
their commit subject (history of /repo may have been rewritten by autosquash)."""
import json, subprocess, re
log = subprocess.run(["git", "-C", "/repo", "log", "--format=%h\t%s"], capture_output=True, text=True).stdout.strip().split("\n")
by_subj = {l.split("\t", 1)[1]: l.split("\t", 1)[0] for l in log}
k = json.load(open("/verif/known_findings.json"))
old = {}
for f in k["findings"]:
    if f["status"] != "fixed":
        continue
    if "subject" not in f:
        # first run: find subject via old hash if it still exists
        r = subprocess.run(["git", "-C", "/repo", "log", "-1", "--format=%s", f["commit"]], capture_output=True, text=True)
        if r.returncode == 0 and r.stdout.strip():
            f["subject"] = r.stdout.strip()
    if f.get("subject") in by_subj:
        new = by_subj[f["subject"]]
        f["text"] = f["text"].replace(f["commit"], new)
        f["commit"] = new
    else:
        print("UNRESOLVED", f.get("subject"), f["commit"])
json.dump(k, open("/verif/known_findings.json", "w"), indent=1)
print("ok", len(k["findings"]))

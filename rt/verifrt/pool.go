package verifrt

import (
	"fmt"
	"reflect"
	"sync"
	"unsafe"
)

// PoolCfg describes how the simulated pool behaves during one run. Every
// decision is explicit data; nothing is drawn at run time.
type PoolCfg struct {
	// Policy: "lifo" (like the per-P private slot of sync.Pool), "fifo",
	// "planned" (Picks decides), "fresh" (Get always returns nil, i.e. the pool
	// never retains anything, as after a GC).
	Policy string `json:"policy"`
	// Picks, policy "planned": the n-th Get hands out free[Picks[n%len]%len(free)];
	// a negative entry returns nil although buffers are available.
	Picks []int `json:"picks,omitempty"`
	// Poison: contents written into a buffer when it is Put back:
	// 0 none, 1 pseudo-random words below the word base, 2 all-nines words,
	// 3 zeros, 4 alternating.
	Poison     int    `json:"poison,omitempty"`
	PoisonSeed uint64 `json:"poison_seed,omitempty"`
	// EmptyAt: indices of Get calls (0-based, per run) before which the free
	// list is dropped, as two garbage collections do to a sync.Pool.
	EmptyAt []int `json:"empty_at,omitempty"`
	// Garbage: at the listed Get indices, if nothing would be handed out, a
	// brand-new buffer of the given capacity pre-filled with a poison pattern is
	// returned ("the contents may not be zero").
	Garbage []GarbageSpec `json:"garbage,omitempty"`
}

// GarbageSpec is one pool_garbage_get fault.
type GarbageSpec struct {
	At      int `json:"at"`
	Cap     int `json:"cap"`
	Pattern int `json:"pattern"`
}

// PoolStats counts what actually happened in a run.
type PoolStats struct {
	Gets, Puts, Reused, Nil      int
	Emptied, Poisoned, Garbage   int
	StalePick                    int // planned pick that was not the LIFO choice
	CrossTask                    int // buffer put by one task and handed to another
	MaxFree, MaxHeld, Verified   int
	HeldAcrossSwitch             int
	WordsPoisoned, WordsVerified int
}

// PoolTrace, if set, is called on every Get (get=true) and Put with the running
// task, its current op and the op-local yield index.
var PoolTrace func(get bool, task, op, k int)

// Hooks registered by the overlay file compiled into package decimal.
var (
	// PoolView returns a stable identity for the pooled object and a view of its
	// words up to capacity.
	PoolView func(v interface{}) (id uintptr, words []uint)
	// PoolFresh allocates a new pooled object of the given capacity.
	PoolFresh func(capWords int) interface{}
	// WordBase is the library's word base (10^19 on 64-bit).
	WordBase uint
)

type freeBuf struct {
	v     interface{}
	id    uintptr
	sum   uint64
	n     int
	putBy int
}

type simPool struct {
	free  []freeBuf
	owner map[uintptr]int // buffers handed out by the pool -> task
	bufs  bool            // the pool has held scratch buffers (garbage buffers may be injected)
	other bool            // the pool has held something else
}

// bufName gives pooled buffers run-local ordinal names so that messages do not
// contain addresses (a replay must reproduce the message exactly).
var bufSeq = map[uintptr]int{}

func bufName(id uintptr) string {
	n, ok := bufSeq[id]
	if !ok {
		n = len(bufSeq) + 1
		bufSeq[id] = n
	}
	return fmt.Sprintf("#%d", n)
}

var (
	pcfg   PoolCfg
	pstats PoolStats
	pools  = map[*sync.Pool]*simPool{}
	plist  []*simPool
	getIdx int
	putIdx int
	held   int
)

func poolReset(c *PoolCfg) {
	if c != nil {
		pcfg = *c
	} else {
		pcfg = PoolCfg{Policy: "lifo"}
	}
	if pcfg.Policy == "" {
		pcfg.Policy = "lifo"
	}
	pstats = PoolStats{}
	pools = map[*sync.Pool]*simPool{}
	plist = nil
	bufSeq = map[uintptr]int{}
	scratchOwner = map[uintptr]scratchRec{}
	getIdx, putIdx, held = 0, 0, 0
}

func poolStats() PoolStats { return pstats }

// ResetPool empties the simulated pool (outside a run): used by the byte-level
// worlds so that every case starts from the same pool state and replays alone.
func ResetPool() {
	if !on {
		poolReset(nil)
	}
}

func pat(pattern int, seed uint64, i int) uint {
	b := WordBase
	if b == 0 {
		b = 10
	}
	switch pattern {
	case 2:
		return b - 1
	case 3:
		return 0
	case 4:
		if i&1 == 0 {
			return b - 1
		}
		return b / 10
	}
	x := seed + uint64(i)*0x9e3779b97f4a7c15
	x ^= x >> 30
	x *= 0xbf58476d1ce4e5b9
	x ^= x >> 27
	x *= 0x94d049bb133111eb
	x ^= x >> 31
	return uint(x % uint64(b))
}

func sumWords(w []uint) uint64 {
	h := uint64(0xcbf29ce484222325)
	for _, x := range w {
		h = (h ^ uint64(x)) * 0x100000001b3
	}
	return h ^ uint64(len(w))
}

// viewOf is PoolView extended to objects that are not scratch buffers (an edited
// tree may pool other things): they are identified by their address and have no
// words to poison or verify.
func viewOf(v interface{}) (id uintptr, words []uint, isBuf bool) {
	id, words = PoolView(v)
	if id != 0 {
		return id, words, true
	}
	rv := reflect.ValueOf(v)
	switch rv.Kind() {
	case reflect.Ptr, reflect.Map, reflect.Slice, reflect.Chan, reflect.Func, reflect.UnsafePointer:
		return rv.Pointer(), nil, false
	}
	return 0, nil, false
}

func getPool(p *sync.Pool) *simPool {
	sp := pools[p]
	if sp == nil {
		sp = &simPool{owner: map[uintptr]int{}}
		pools[p] = sp
		plist = append(plist, sp)
	}
	return sp
}

// PoolGet replaces (*sync.Pool).Get in the instrumented library.
// poolMu serialises the simulated pool when helper goroutines of the library
// use it from several threads (uncontended otherwise).
var poolMu sync.Mutex

func PoolGet(p *sync.Pool) interface{} {
	if PoolView == nil {
		return p.Get()
	}
	poolMu.Lock()
	defer poolMu.Unlock()
	sp := getPool(p)
	idx := getIdx
	getIdx++
	pstats.Gets++
	tid := -1
	if on && cur != nil && quiet == 0 {
		tid = cur.id
		cur.holds++
		rep.Trace = (rep.Trace ^ 0x47455400) * 0x100000001b3
	}
	if PoolTrace != nil && on && cur != nil && quiet == 0 {
		PoolTrace(true, cur.id, cur.op, cur.opYields)
	}
	held++
	if held > pstats.MaxHeld {
		pstats.MaxHeld = held
	}
	for _, e := range pcfg.EmptyAt {
		if e == idx && len(sp.free) > 0 {
			// dropped buffers are still verified first: a write after Put is a
			// defect whether or not the buffer is ever handed out again
			if msg := sp.verify("gc"); msg != "" {
				poolViolate(msg)
			}
			sp.free = nil
			pstats.Emptied++
		}
	}
	pickI := -1
	if n := len(sp.free); n > 0 {
		switch pcfg.Policy {
		case "fresh":
			pickI = -1
		case "fifo":
			pickI = 0
		case "planned":
			if len(pcfg.Picks) > 0 {
				k := pcfg.Picks[idx%len(pcfg.Picks)]
				if k >= 0 {
					pickI = k % n
				}
			} else {
				pickI = n - 1
			}
		default:
			pickI = n - 1
		}
	}
	if pickI < 0 {
		for _, g := range pcfg.Garbage {
			if g.At == idx && PoolFresh != nil && !sp.other && (sp.bufs || p.New == nil) {
				c := g.Cap
				if c < 1 {
					c = 1
				}
				v := PoolFresh(c)
				_, w := PoolView(v)
				for i := range w {
					w[i] = pat(g.Pattern, pcfg.PoisonSeed^uint64(idx)<<20, i)
				}
				pstats.Garbage++
				id, _ := PoolView(v)
				sp.owner[id] = tid
				return v
			}
		}
		pstats.Nil++
		if p.New != nil {
			// like the real pool: an empty pool with a New function never returns nil
			var v interface{}
			poolMu.Unlock()
			func() {
				// library code: must not run under the pool's own lock; it may
				// panic (an injected fault at one of its yields), so re-lock in a defer
				defer poolMu.Lock()
				v = p.New()
			}()
			if id, _, _ := viewOf(v); id != 0 {
				sp.owner[id] = tid
			}
			return v
		}
		return nil
	}
	if pickI != len(sp.free)-1 {
		pstats.StalePick++
	}
	fb := sp.free[pickI]
	sp.free = append(sp.free[:pickI:pickI], sp.free[pickI+1:]...)
	_, w, _ := viewOf(fb.v)
	pstats.Verified++
	pstats.WordsVerified += len(w)
	if len(w) != fb.n || sumWords(w) != fb.sum {
		poolViolate(fmt.Sprintf("pooled buffer %s (put by task %d) was written after it was put back (detected when handed out by Get #%d)", bufName(fb.id), fb.putBy, idx))
	}
	if fb.putBy != tid {
		pstats.CrossTask++
	}
	pstats.Reused++
	sp.owner[fb.id] = tid
	return fb.v
}

// PoolPut replaces (*sync.Pool).Put in the instrumented library.
func PoolPut(p *sync.Pool, v interface{}) {
	if PoolView == nil {
		p.Put(v)
		return
	}
	poolMu.Lock()
	defer poolMu.Unlock()
	sp := getPool(p)
	idx := putIdx
	putIdx++
	pstats.Puts++
	tid := -1
	if on && cur != nil && quiet == 0 {
		tid = cur.id
		cur.holds--
		cur.sincePut = 0
		rep.Trace = (rep.Trace ^ 0x50555400) * 0x100000001b3
	}
	if PoolTrace != nil && on && cur != nil && quiet == 0 {
		PoolTrace(false, cur.id, cur.op, cur.opYields)
	}
	held--
	if v == nil {
		return
	}
	id, w, isBuf := viewOf(v)
	if isBuf {
		sp.bufs = true
	} else {
		sp.other = true
	}
	for _, fb := range sp.free {
		if fb.id == id && id != 0 {
			poolViolate(fmt.Sprintf("pooled buffer %s put twice (Put #%d by task %d, already free since a put by task %d)", bufName(id), idx, tid, fb.putBy))
		}
	}
	if own, ok := sp.owner[id]; ok {
		if own != tid {
			poolViolate(fmt.Sprintf("pooled buffer %s obtained by task %d was put back by task %d", bufName(id), own, tid))
		}
		delete(sp.owner, id)
	}
	if pcfg.Poison != 0 {
		for i := range w {
			w[i] = pat(pcfg.Poison, pcfg.PoisonSeed^uint64(idx)<<24, i)
		}
		pstats.Poisoned++
		pstats.WordsPoisoned += len(w)
	}
	if len(sp.free) >= 48 {
		// bounded like a real pool (which the GC trims): verify and drop the oldest
		old := sp.free[0]
		_, ow, _ := viewOf(old.v)
		if len(ow) != old.n || sumWords(ow) != old.sum {
			poolViolate(fmt.Sprintf("pooled buffer %s (put by task %d) was written after it was put back (detected when trimmed)", bufName(old.id), old.putBy))
		}
		sp.free = append(sp.free[:0:0], sp.free[1:]...)
	}
	sp.free = append(sp.free, freeBuf{v: v, id: id, sum: sumWords(w), n: len(w), putBy: tid})
	if len(sp.free) > pstats.MaxFree {
		pstats.MaxFree = len(sp.free)
	}
}

func (sp *simPool) verify(where string) string {
	for _, fb := range sp.free {
		_, w, _ := viewOf(fb.v)
		pstats.WordsVerified += len(w)
		if len(w) != fb.n || sumWords(w) != fb.sum {
			return fmt.Sprintf("pooled buffer %s (put by task %d) was written after it was put back (detected at %s)", bufName(fb.id), fb.putBy, where)
		}
	}
	return ""
}

// poolVerifyFree checks every free buffer of every pool. Called at every task
// switch and at the end of a run.
func poolVerifyFree(where string) {
	if PoolView == nil {
		return
	}
	if on && held > 0 && where == "switch" {
		pstats.HeldAcrossSwitch++
	}
	for _, sp := range plist {
		if msg := sp.verify(where); msg != "" {
			poolViolate(msg)
			return
		}
	}
}

func poolViolate(msg string) {
	if on && cur != nil {
		violate("pool", msg, 0)
		return
	}
	// outside a run (or at its end): record, do not panic
	if rep != nil && rep.Violation == nil {
		rep.Violation = &Violation{Kind: "pool", Msg: msg, Task: -1, Op: -1}
	}
}

// Shadow runs f with yields ignored and with a private, empty, non-poisoning
// pool that never retains anything; the live pool state (free list, counters,
// statistics) is untouched. Used for reference executions made from inside a
// task (C10 shadow execution, C19 bare-operation reference).
func Shadow(f func()) {
	sc, ss, sp, sl, sg, su, sh := pcfg, pstats, pools, plist, getIdx, putIdx, held
	pcfg = PoolCfg{Policy: "fresh"}
	pools = map[*sync.Pool]*simPool{}
	plist = nil
	quiet++
	sb := shadowBudget
	shadowBudget = 20000000
	defer func() {
		quiet--
		shadowBudget = sb
		pcfg, pstats, pools, plist, getIdx, putIdx, held = sc, ss, sp, sl, sg, su, sh
	}()
	f()
}

// ---------------------------------------------------------------------------
// Scratch ownership, independent of what implements the pool: the overlay wraps
// the library's getDec/putDec.

type scratchRec struct {
	task int
	ref  unsafe.Pointer // keeps the buffer alive so that its address cannot be reused while it is recorded
}

var scratchOwner = map[uintptr]scratchRec{}

// ScratchStats counts hand-outs seen by the ownership monitor (evidence).
var ScratchGets, ScratchPuts int

// ScratchGet is called with the buffer getDec is about to return.
func ScratchGet(p unsafe.Pointer) {
	id := uintptr(p)
	if id == 0 {
		return
	}
	poolMu.Lock()
	defer poolMu.Unlock()
	ScratchGets++
	tid := -1
	if on && cur != nil && quiet == 0 {
		tid = cur.id
	}
	if own, held := scratchOwner[id]; held {
		poolViolate(fmt.Sprintf("scratch buffer %s was handed out to task %d while task %d still holds it", bufName(id), tid, own.task))
		return
	}
	scratchOwner[id] = scratchRec{tid, p}
}

// ScratchPut is called with the buffer putDec is about to release.
func ScratchPut(p unsafe.Pointer) {
	id := uintptr(p)
	if id == 0 {
		return
	}
	poolMu.Lock()
	defer poolMu.Unlock()
	ScratchPuts++
	if _, held := scratchOwner[id]; !held {
		tid := -1
		if on && cur != nil {
			tid = cur.id
		}
		poolViolate(fmt.Sprintf("scratch buffer %s was released by task %d although nobody holds it (released twice?)", bufName(id), tid))
		return
	}
	delete(scratchOwner, id)
}

package verifrt

// NumSites is overwritten by the instrumenter in the scratch copy.
const NumSites = 0

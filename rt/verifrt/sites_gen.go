package verifrt

// NumSites is overwritten by the instrumenter in the scratch copy.
const NumSites = 0

// AtomicSiteIDs is overwritten by the instrumenter in the scratch copy.
var AtomicSiteIDs = []uint32{}

package verifrt

import (
	"fmt"
	"sync"
)

// Cooperative replacements for sync.Mutex / sync.RWMutex / sync.Once, used only
// when an edited tree introduces them (the pinned tree has none). A real lock
// held by a parked task would block the token holder forever; these let the
// scheduler run the holder instead. Read locks are treated as exclusive.

type lockState struct {
	owner int
	depth int
}

var (
	locks     = map[interface{}]*lockState{}
	lockDepth = map[int]int{} // task -> number of locks held
	onceDone  = map[*sync.Once]bool{}
	// LockAcquires counts lock acquisitions and Once bodies run (evidence).
	LockAcquires int
)

func taskID() int {
	if on && cur != nil {
		return cur.id
	}
	return -1
}

// LockEpoch is incremented whenever a simulated lock is released (incl. the end
// of a Once body). A monitor that sees package-level state change accepts the
// change if the epoch advanced since its previous evaluation: the write
// happened under the lock and is only noticed at the first yield after it.
var LockEpoch uint64

// LocksHeld reports how many simulated locks (incl. running Once bodies) the
// running task holds. Writes to package-level state are tolerated by the
// monitors only while this is > 0.
func LocksHeld() int { return lockDepth[taskID()] }

// MutexLock replaces Lock/RLock.
func MutexLock(m interface{}) {
	syncPoint()
	id := taskID()
	for {
		st := locks[m]
		if st == nil || st.depth == 0 {
			locks[m] = &lockState{owner: id, depth: 1}
			lockDepth[id]++
			LockAcquires++
			return
		}
		if st.owner == id {
			if on {
				violate("deadlock", fmt.Sprintf("task %d locks a mutex it already holds", id), 0)
			}
			panic("verifrt: recursive lock outside a run")
		}
		// held by another task: run it (it is parked at a yield)
		if !on || quiet > 0 {
			panic("verifrt: lock held by a parked task while yields are paused")
		}
		var nx *task
		for _, t := range tasks {
			if t.id == st.owner && !t.done {
				nx = t
			}
		}
		if nx == nil {
			violate("deadlock", fmt.Sprintf("task %d waits for a mutex whose holder (task %d) has finished", id, st.owner), 0)
		}
		rep.Switches++
		switchTo(nx, 0)
	}
}

// MutexUnlock replaces Unlock/RUnlock.
func MutexUnlock(m interface{}) {
	st := locks[m]
	if st == nil || st.depth == 0 {
		panic("sync: unlock of unlocked mutex")
	}
	st.depth = 0
	lockDepth[st.owner]--
	LockEpoch++
	// releasing a lock is a scheduling point: whatever escapes the critical
	// section (a pointer into shared state returned under a deferred Unlock) can
	// be invalidated by another task before the caller uses it
	syncPoint()
}

// syncPoint is a yield that belongs to no statement (site 0); the schedule
// generators treat it as a preferred preemption point.
func syncPoint() {
	if on && quiet == 0 && cur != nil {
		if InterestTrace != nil {
			InterestTrace(cur.id, cur.op, cur.opYields+1)
		}
		Yield(0)
	}
}

// OnceDo replaces (*sync.Once).Do.
func OnceDo(o *sync.Once, f func()) {
	if onceDone[o] {
		return
	}
	MutexLock(o)
	defer MutexUnlock(o)
	if onceDone[o] {
		return
	}
	defer func() { onceDone[o] = true }()
	f()
}

func syncReset() {
	locks = map[interface{}]*lockState{}
	lockDepth = map[int]int{}
	// onceDone deliberately survives runs, like real Once values do
}

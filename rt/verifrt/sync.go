package verifrt

import (
	"fmt"
	"sync"
	"sync/atomic"
)

// Cooperative replacements for sync.Mutex / sync.RWMutex / sync.Once, used only
// when an edited tree introduces them (the pinned tree has none). A real lock
// held by a parked task would block the token holder forever; these let the
// scheduler run the holder instead. Read locks are treated as exclusive.

type lockState struct {
	owner   int         // writer (or sole holder of a Mutex / Once)
	depth   int         // 1 while write-locked
	readers map[int]int // task -> read locks held (RWMutex only)
}

var (
	locks     = map[interface{}]*lockState{}
	lockDepth = map[int]int{} // task -> number of locks held
	onceDone  = map[*sync.Once]bool{}
	// LockAcquires counts lock acquisitions and Once bodies run (evidence).
	LockAcquires int
)

func taskID() int {
	if on && cur != nil {
		return cur.id
	}
	return -1
}

// LockEpoch is incremented whenever a simulated lock is released (incl. the end
// of a Once body). A monitor that sees package-level state change accepts the
// change if the epoch advanced since its previous evaluation: the write
// happened under the lock and is only noticed at the first yield after it.
var LockEpoch uint64

// readLocks counts read locks per task.
var readLocks = map[int]int{}

// LocksHeld reports how many simulated *exclusive* locks (incl. running Once bodies) the
// running task holds. Writes to package-level state are tolerated by the
// monitors only while this is > 0.
func LocksHeld() int { return lockDepth[taskID()] }

// While helper goroutines of the library are alive (foreign != 0) nothing is
// simulated; locks taken then are real locks.
var (
	realMu    sync.Mutex
	realLocks = map[interface{}]*sync.RWMutex{}
	realHeld  = map[interface{}]int{}
)

func realLock(m interface{}, read bool) {
	realMu.Lock()
	l := realLocks[m]
	if l == nil {
		l = new(sync.RWMutex)
		realLocks[m] = l
	}
	realMu.Unlock()
	if read {
		l.RLock()
	} else {
		l.Lock()
	}
	realMu.Lock()
	realHeld[m]++
	realMu.Unlock()
}

// realUnlock releases m if it was taken as a real lock.
func realUnlock(m interface{}, read bool) bool {
	realMu.Lock()
	if realHeld[m] == 0 {
		realMu.Unlock()
		return false
	}
	realHeld[m]--
	l := realLocks[m]
	realMu.Unlock()
	if read {
		l.RUnlock()
	} else {
		l.Unlock()
	}
	return true
}

// MutexLock replaces Lock/RLock.
func MutexLock(m interface{}) {
	if atomic.LoadInt32(&unsim) != 0 {
		realLock(m, false)
		return
	}
	syncPoint()
	id := taskID()
	for {
		st := locks[m]
		if st == nil {
			st = &lockState{}
			locks[m] = st
		}
		if st.depth == 0 {
			if r := st.otherReader(id); r >= 0 {
				// readers of other tasks hold the lock: run one of them
				if !on || quiet > 0 {
					panic("verifrt: lock held by a parked task while yields are paused")
				}
				runHolder(r, id)
				continue
			}
			st.owner, st.depth = id, 1
			lockDepth[id]++
			LockAcquires++
			return
		}
		if st.owner == id {
			if on {
				violate("deadlock", fmt.Sprintf("task %d locks a mutex it already holds", id), 0)
			}
			panic("verifrt: recursive lock outside a run")
		}
		// held by another task: run it (it is parked at a yield)
		if !on || quiet > 0 {
			panic("verifrt: lock held by a parked task while yields are paused")
		}
		var nx *task
		for _, t := range tasks {
			if t.id == st.owner && !t.done {
				nx = t
			}
		}
		if nx == nil {
			violate("deadlock", fmt.Sprintf("task %d waits for a mutex whose holder (task %d) has finished", id, st.owner), 0)
		}
		rep.Switches++
		switchTo(nx, 0)
	}
}

func (st *lockState) otherReader(id int) int {
	for t, n := range st.readers {
		if n > 0 && t != id {
			return t
		}
	}
	return -1
}

// RLock replaces (*sync.RWMutex).RLock: readers share the lock, a writer excludes them.
func RLock(m interface{}) {
	if atomic.LoadInt32(&unsim) != 0 {
		realLock(m, true)
		return
	}
	syncPoint()
	id := taskID()
	for {
		st := locks[m]
		if st == nil {
			st = &lockState{readers: map[int]int{}}
			locks[m] = st
		}
		if st.readers == nil {
			st.readers = map[int]int{}
		}
		if st.depth == 0 || st.owner == id {
			st.readers[id]++
			readLocks[id]++
			LockAcquires++
			return
		}
		if !on || quiet > 0 {
			panic("verifrt: lock held by a parked task while yields are paused")
		}
		runHolder(st.owner, id)
	}
}

// RUnlock replaces (*sync.RWMutex).RUnlock.
func RUnlock(m interface{}) {
	if realUnlock(m, true) {
		return
	}
	id := taskID()
	st := locks[m]
	if st == nil || st.readers[id] == 0 {
		panic("sync: RUnlock of unlocked RWMutex")
	}
	st.readers[id]--
	readLocks[id]--
	syncPoint()
}

func runHolder(holder, id int) {
	var nx *task
	for _, t := range tasks {
		if t.id == holder && !t.done {
			nx = t
		}
	}
	if nx == nil {
		violate("deadlock", fmt.Sprintf("task %d waits for a lock whose holder (task %d) has finished", id, holder), 0)
	}
	rep.Switches++
	switchTo(nx, 0)
}

// MutexUnlock replaces Unlock.
func MutexUnlock(m interface{}) {
	if realUnlock(m, false) {
		return
	}
	st := locks[m]
	if st == nil || st.depth == 0 {
		panic("sync: unlock of unlocked mutex")
	}
	st.depth = 0
	lockDepth[st.owner]--
	LockEpoch++
	// releasing a lock is a scheduling point: whatever escapes the critical
	// section (a pointer into shared state returned under a deferred Unlock) can
	// be invalidated by another task before the caller uses it
	syncPoint()
}

// syncPoint is a yield that belongs to no statement (site 0); the schedule
// generators treat it as a preferred preemption point.
func syncPoint() {
	if on && quiet == 0 && cur != nil {
		if InterestTrace != nil {
			InterestTrace(cur.id, cur.op, cur.opYields+1)
		}
		Yield(0)
	}
}

// ArgTrace, if set, is called when a value operand of a sync/atomic call has
// been evaluated and the call itself is still to come (k = index of the yield
// that follows).
var ArgTrace func(task, op, k int)

// SyncArgs counts executed SyncArg points (evidence).
var SyncArgs uint64

// SyncArg is wrapped around the value operands of sync/atomic calls by the
// instrumenter: the operand has been evaluated, the atomic operation has not
// happened yet; other tasks may run in between.
func SyncArg(v interface{}) interface{} {
	if on && quiet == 0 && cur != nil {
		SyncArgs++
		if ArgTrace != nil {
			ArgTrace(cur.id, cur.op, cur.opYields+1)
		}
	}
	syncPoint()
	return v
}

// OnceDo replaces (*sync.Once).Do.
func OnceDo(o *sync.Once, f func()) {
	if onceDone[o] {
		return
	}
	MutexLock(o)
	defer MutexUnlock(o)
	if onceDone[o] {
		return
	}
	defer func() { onceDone[o] = true }()
	f()
}

// ResetOnce forgets which Once bodies have run (the harness restores the
// package-level state they initialised before every scenario).
func ResetOnce() {
	if !on {
		onceDone = map[*sync.Once]bool{}
	}
}

func syncReset() {
	locks = map[interface{}]*lockState{}
	lockDepth = map[int]int{}
	readLocks = map[int]int{}
	// onceDone deliberately survives runs, like real Once values do
}

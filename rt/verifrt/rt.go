// Package verifrt is the deterministic simulation runtime that is copied into
// the instrumented scratch copy of github.com/db47h/decimal (never into /repo).
//
// The instrumenter inserts verifrt.Yield(site) before every statement of the
// library and redirects the library's sync.Pool Get/Put calls to PoolGet/PoolPut.
// The harness drives everything through Run.
//
// Exactly one task (a real goroutine) holds the run token at any time, every
// hand-off goes through a channel, so all state below is accessed by one
// goroutine at a time and needs no locking. Nothing in this package consults a
// PRNG or a clock: a run is a pure function of its Config.
//
// Written in go1.14-compatible Go because it is compiled as part of the decimal
// module (go.mod: go 1.14).
package verifrt

import (
	"fmt"
	"sort"
	"sync/atomic"
	"time"
)

// Preempt is one entry of a preemption plan: when Task executes its K-th yield
// (1-based) inside the operation with id Op, the token is handed to task Next.
type Preempt struct {
	Task int `json:"t"`
	Op   int `json:"op"`
	K    int `json:"k"`
	Next int `json:"n"`
}

// PanicFault injects a panic at the K-th yield inside operation Op of Task.
type PanicFault struct {
	Task int
	Op   int
	K    int
	Fire func() // must panic
	Name string
}

// Violation is the first alarm raised by a monitor or by the pool discipline.
type Violation struct {
	Kind  string `json:"kind"`
	Msg   string `json:"msg"`
	Task  int    `json:"task"`
	Op    int    `json:"op"`
	Site  uint32 `json:"site"`
	Clock uint64 `json:"clock"`
}

// Config fully determines one simulated run.
type Config struct {
	Preempts []Preempt
	Panics   []PanicFault
	Pool     PoolCfg
	// Monitor is evaluated at every yield of every task, after the logical
	// clock was advanced and before any fault or hand-off. Nested yields made
	// by the monitor are ignored. A non-empty result aborts the run.
	Monitor func(task, op int, site uint32) string
	// SwitchHook is evaluated (monitor phase) just before a hand-off.
	MaxYields uint64 // watchdog for the whole run; 0 = default
	Start     int    // first task to run
}

// Report is what a run leaves behind.
type Report struct {
	Violation   *Violation
	Watchdog    bool
	Clock       uint64   // logical steps (yields executed)
	TaskYields  []uint64 // per task
	Switches    int      // planned preemptions that fired
	SwitchSites []uint32 // site at which each fired preemption happened
	InWindow    int      // fired preemptions while the preempted task held pooled scratch
	AfterPut    int      // fired preemptions within 3 yields after a PoolPut
	Trace       uint64   // hash chain over (task, site) of every yield + pool decisions
	Sched       uint64   // hash over the (task, site, next) list of fired preemptions
	MonitorEval uint64
	PanicsFired []string
	Pool        PoolStats
}

type task struct {
	id       int
	wake     chan struct{}
	body     func()
	done     bool
	started  bool
	op       int
	opYields int
	yields   uint64
	curAtomic, justAtomic bool
	holds    int // pooled buffers currently held (gets - puts)
	sincePut int // yields since the last PoolPut of this task (large = none)
	pre      map[int][]Preempt
	cur      []Preempt
	pan      map[int][]PanicFault
	curPan   []PanicFault
}

type abortT struct{}

func (abortT) Error() string { return "verifrt: run aborted" }

type shadowTimeoutT struct{}

func (shadowTimeoutT) Error() string { return "verifrt: reference execution exceeded its step budget" }

// ShadowTimeout is the panic value raised when a Shadow execution exceeds its
// step budget.
var ShadowTimeout = shadowTimeoutT{}

var shadowBudget int64

// Abort is the sentinel panic value used to unwind tasks when a run is aborted.
var Abort = abortT{}

var (
	on       bool
	quiet    int // >0: yields are ignored (monitor phase, harness observation code)
	aborting bool
	cur      *task
	tasks    []*task
	cfg      *Config
	rep      *Report
	doneCh   chan struct{}
	maxY     uint64

	// lifetime coverage, accumulated over all runs of this process
	SiteHits      []uint32
	SitePreempted []uint32
	TotalYields   uint64
)

// NumSites is set by the generated file sites_gen.go.
func initCoverage() {
	if len(SiteHits) < NumSites+1 {
		SiteHits = make([]uint32, NumSites+1)
		SitePreempted = make([]uint32, NumSites+1)
		atomicSite = make([]bool, NumSites+1)
		for _, id := range AtomicSiteIDs {
			if int(id) < len(atomicSite) {
				atomicSite[id] = true
			}
		}
	}
}

var atomicSite []bool

// JustAtomic reports whether the statement the running task executed right
// before the current yield performs a sync/atomic operation. Monitors accept a
// change of data held in an atomic value only then (or under a lock).
func JustAtomic() bool { return on && cur != nil && cur.justAtomic }

// InterestTrace, if set, is called when the running task is about to execute a
// statement that performs a sync/atomic operation (with the op-local yield
// index): schedule generators place preemptions right after such statements.
var InterestTrace func(task, op, k int)

// AtomicHits counts executed sync/atomic statements (evidence).
var AtomicHits uint64

// Active reports whether a simulated run is in progress.
func Active() bool { return on }

// Aborted reports whether the current run is being torn down.
func Aborted() bool { return aborting }

// Pause makes yields no-ops until the matching Resume. Used by harness code that
// reads library state from inside a task (observation must not be schedulable).
func Pause() { quiet++ }

// Resume undoes one Pause.
func Resume() { quiet-- }

// PanicsFired returns the number of injected panics fired so far in this run.
func PanicsFired() int {
	if rep == nil {
		return 0
	}
	return len(rep.PanicsFired)
}

// CurrentTask returns the id of the running task (-1 outside a run).
func CurrentTask() int {
	if !on || cur == nil {
		return -1
	}
	return cur.id
}

// BeginOp tells the runtime that the running task starts operation id.
func BeginOp(id int) {
	if !on || cur == nil {
		return
	}
	t := cur
	t.op = id
	t.opYields = 0
	t.holds = 0
	t.cur = t.pre[id]
	t.curPan = t.pan[id]
}

// EndOp marks the end of the current operation; it returns the number of yields
// the operation executed.
func EndOp() int {
	if atomic.LoadInt32(&unsim) != 0 {
		// the operation started helper goroutines: wait for them (they have done
		// their work - the call has returned - but may not have ended yet), then
		// resume the simulation. A helper that outlives its call is not simulated.
		for i := 0; atomic.LoadInt32(&foreign) != 0; i++ {
			if i > 100000 {
				if rep != nil {
					rep.Watchdog = true
				}
				break
			}
			time.Sleep(50 * time.Microsecond)
		}
		atomic.StoreInt32(&unsim, 0)
	}
	if !on || cur == nil {
		return 0
	}
	n := cur.opYields
	cur.op = -1
	cur.cur = nil
	cur.curPan = nil
	return n
}

// Yield is called before every statement of the instrumented library.
// foreign counts live helper goroutines started by the library (GoStart/GoEnd);
// unsim is set from the first GoStart of an operation until that operation ends.
var foreign, unsim int32

// ForeignStarted counts helper goroutines seen (evidence).
var ForeignStarted uint64

// GoStart is called by the parent right before a `go func(){...}()` statement of
// the library, GoEnd by the helper when it ends. From the first GoStart to the
// end of the public call that made it the simulation is suspended (every yield
// of every goroutine returns at once, simulated locks are real locks): the rest
// of that call is one atomic step of the schedule - a deterministic rule, as the
// moment a helper ends is not.
func GoStart() {
	atomic.AddInt32(&foreign, 1)
	atomic.StoreInt32(&unsim, 1)
	atomic.AddUint64(&ForeignStarted, 1)
}

func GoEnd() { atomic.AddInt32(&foreign, -1) }

func Yield(site uint32) {
	if atomic.LoadInt32(&unsim) != 0 {
		return
	}
	if shadowBudget > 0 {
		// reference execution (yields are otherwise ignored): only a step budget
		shadowBudget--
		if shadowBudget == 0 {
			panic(ShadowTimeout)
		}
		return
	}
	if !on || quiet > 0 {
		return
	}
	t := cur
	if aborting {
		panic(Abort)
	}
	t.yields++
	t.opYields++
	t.sincePut++
	rep.Clock++
	TotalYields++
	rep.Trace = (rep.Trace ^ (uint64(t.id)<<32 | uint64(site))) * 0x100000001b3
	// the statement this task has just executed (wholly, or - at a scheduling point
	// inside a statement, site 0 - in part) performs a sync/atomic operation?
	t.justAtomic = t.curAtomic
	if site != 0 && int(site) < len(atomicSite) {
		t.curAtomic = atomicSite[site]
	}
	if int(site) < len(SiteHits) {
		SiteHits[site]++
		if atomicSite[site] {
			AtomicHits++
			if InterestTrace != nil {
				InterestTrace(t.id, t.op, t.opYields)
			}
		}
	}

	// monitor phase: nested yields are ignored
	if cfg.Monitor != nil {
		quiet++
		msg := cfg.Monitor(t.id, t.op, site)
		quiet--
		rep.MonitorEval++
		if msg != "" {
			violate("monitor", msg, site)
		}
	}
	if rep.Clock > maxY {
		rep.Watchdog = true
		abort()
	}

	// fault phase
	// (never while the task holds a simulated lock: a panic between Lock and
	// Unlock is not something the code under test can meet, and it would leave
	// the lock held for the rest of the run)
	if len(t.curPan) > 0 && t.curPan[0].K <= t.opYields && lockDepth[t.id] == 0 && readLocks[t.id] == 0 {
		f := t.curPan[0]
		t.curPan = t.curPan[1:]
		rep.PanicsFired = append(rep.PanicsFired, f.Name)
		f.Fire()
		panic("verifrt: PanicFault.Fire did not panic")
	}

	// scheduling phase
	if len(t.cur) > 0 && t.cur[0].K <= t.opYields {
		p := t.cur[0]
		t.cur = t.cur[1:]
		if p.K == t.opYields {
			nx := pick(p.Next, t)
			if nx != nil && nx != t {
				rep.Switches++
				rep.SwitchSites = append(rep.SwitchSites, site)
				rep.Sched = (rep.Sched ^ (uint64(t.id)<<40 | uint64(nx.id)<<32 | uint64(site))) * 0x100000001b3
				if int(site) < len(SitePreempted) {
					SitePreempted[site]++
				}
				if t.holds > 0 {
					rep.InWindow++
				}
				if t.sincePut <= 3 {
					rep.AfterPut++
				}
				switchTo(nx, site)
			}
		}
	}
}

func violate(kind, msg string, site uint32) {
	if rep.Violation == nil {
		v := &Violation{Kind: kind, Msg: msg, Site: site, Clock: rep.Clock, Task: -1, Op: -1}
		if cur != nil {
			v.Task = cur.id
			v.Op = cur.op
		}
		rep.Violation = v
	}
	abort()
}

// Violate lets the harness raise an alarm from inside a task.
func Violate(kind, msg string) {
	if !on {
		panic("verifrt.Violate outside run: " + msg)
	}
	violate(kind, msg, 0)
}

func abort() {
	aborting = true
	panic(Abort)
}

// pick returns the task with id want if it is runnable, else the next runnable
// task after it in cyclic order, else nil.
func pick(want int, me *task) *task {
	n := len(tasks)
	if n == 0 {
		return nil
	}
	if want < 0 {
		want = 0
	}
	for i := 0; i < n; i++ {
		c := tasks[(want+i)%n]
		if !c.done && c != me {
			return c
		}
	}
	return nil
}

func switchTo(nx *task, site uint32) {
	me := cur
	poolVerifyFree("switch")
	cur = nx
	nx.wake <- struct{}{}
	<-me.wake
	if aborting {
		panic(Abort)
	}
}

func (t *task) run() {
	<-t.wake
	t.started = true
	if !aborting {
		func() {
			defer func() {
				if r := recover(); r != nil {
					if _, ok := r.(abortT); ok {
						return
					}
					if rep.Violation == nil {
						rep.Violation = &Violation{Kind: "harness-panic", Msg: fmt.Sprint(r), Task: t.id, Op: t.op, Clock: rep.Clock}
					}
					aborting = true
				}
			}()
			t.body()
		}()
	}
	t.done = true
	nx := pick(t.id+1, t)
	if nx == nil {
		cur = nil
		doneCh <- struct{}{}
		return
	}
	cur = nx
	nx.wake <- struct{}{}
}

// Run executes bodies[i] as task i under cfg and returns the report. It must be
// called from a goroutine that is not a task; Run calls must not overlap.
func Run(c *Config, bodies []func()) *Report {
	if on {
		panic("verifrt: nested Run")
	}
	initCoverage()
	cfg = c
	rep = &Report{Trace: 0xcbf29ce484222325, Sched: 0xcbf29ce484222325}
	rep.TaskYields = make([]uint64, len(bodies))
	aborting = false
	quiet = 0
	maxY = c.MaxYields
	if maxY == 0 {
		maxY = 50000000
	}
	doneCh = make(chan struct{}, 1)
	tasks = make([]*task, len(bodies))
	for i := range bodies {
		tasks[i] = &task{id: i, wake: make(chan struct{}, 1), body: bodies[i], op: -1, sincePut: 1 << 30,
			pre: map[int][]Preempt{}, pan: map[int][]PanicFault{}}
	}
	for _, p := range c.Preempts {
		if p.Task >= 0 && p.Task < len(tasks) {
			tasks[p.Task].pre[p.Op] = append(tasks[p.Task].pre[p.Op], p)
		}
	}
	for _, p := range c.Panics {
		if p.Task >= 0 && p.Task < len(tasks) {
			tasks[p.Task].pan[p.Op] = append(tasks[p.Task].pan[p.Op], p)
		}
	}
	for _, t := range tasks {
		for k := range t.pre {
			l := t.pre[k]
			sort.SliceStable(l, func(i, j int) bool { return l[i].K < l[j].K })
		}
		for k := range t.pan {
			l := t.pan[k]
			sort.SliceStable(l, func(i, j int) bool { return l[i].K < l[j].K })
		}
	}
	poolReset(&c.Pool)
	syncReset()
	if len(tasks) == 0 {
		return rep
	}
	for _, t := range tasks {
		go t.run()
	}
	st := c.Start
	if st < 0 || st >= len(tasks) {
		st = 0
	}
	on = true
	cur = tasks[st]
	cur.wake <- struct{}{}
	<-doneCh
	on = false
	cur = nil
	quiet = 0
	if !aborting {
		poolVerifyFree("end")
	}
	for i, t := range tasks {
		rep.TaskYields[i] = t.yields
	}
	rep.Pool = poolStats()
	poolReset(nil)
	tasks = nil
	r := rep
	return r
}

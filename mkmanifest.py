#!/usr/bin/env python3
"""Regenerates MANIFEST.json from the tables below (keeps it schema-valid)."""
import json, sys

BASE_OFF = "cd /repo && GOFLAGS=-mod=mod GOPROXY=off GOSUMDB=off GOTOOLCHAIN=local go test -json -vet=off -count=1 -timeout 25m ./..."

claimed = {
 "C18": dict(cat="exploration", ref="DESIGN.md §4 C18",
   text="Seeded search over interleavings of 2-5 simulated caller goroutines sharing read-only operands, with a simulated sync.Pool (stale/garbage/poisoned/emptied buffers) and lowered tuning knobs; memory monitors at every statement boundary show no operand, no foreign receiver and no package-level variable is written, pool and scratch-buffer ownership discipline (getDec/putDec wrapped whatever implements them) shows scratch buffers are held and written by one task at a time, and every result equals the sequential one. sync.Mutex/RWMutex/Once introduced by a change are simulated (lock operations and sync/atomic statements are preferred switch points); package-level state is reset between scenarios so that lazily built caches start cold. Sampling, not proof.",
   note="Trusted: the instrumenter (yield insertion is add-only and keeps the library's semantics), the token-passing scheduler, Go's memory model for channel hand-off. Stubbed: real sync.Pool, Go scheduler, true parallelism (sub-statement torn reads are unreachable). Arithmetic correctness of one sequential execution is assumed.",
   tech="deterministic simulation: seeded cooperative scheduler over statement-level yield points (plus scheduling points at lock operations and between the operands of sync/atomic calls and the call) + simulated sync.Pool with fault injection; sequential-equivalence oracle, memory monitors at every yield, write-protected (mprotect) operand memory"),
}

TRUST = "Trusted: the instrumenter (add-only yield insertion), the simulated pool, the harness' own observation code (digits decoded from BitsExp independently of the library's formatting). Stubbed: sync.Pool. Sampling, not proof; correct rounding of single operations (C01-C05) is assumed where an oracle compares the library with itself."
claimed.update({
 "C04": dict(cat="exploration", ref="DESIGN.md §4 C04",
   text="Panic discipline over simulated histories: an operand-class model (IEEE 754 special cases, written from the property text) decides for every arithmetic step whether it is invalid; exactly those steps must panic, with dynamic type ErrNaN, leaving a valid receiver that the history keeps using; every other panic value on valid arguments - in any of ~60 public operations, deep multi-word operands, lowered knobs, stale/garbage/poisoned scratch - is a violation. The finite operand-class table itself is enumerated exhaustively (fault-free base configuration).",
   note=TRUST, tech="deterministic simulation of API histories with fault injection (NaN operations, simulated sync.Pool faults, knob changes) + executable operand-class model; exhaustive class sweep as base configuration"),
 "C08": dict(cat="exploration", ref="DESIGN.md §4 C08",
   text="Canonical-form invariant evaluated through the public API on every variable after every step of seeded histories (setters, arithmetic, Sqrt, SetPrec/SetMode, parsing incl. malformed literals, gob decoding incl. corrupted payloads, raw SetBitsExp within contract), also after recovered panics and reported failures, with receivers reused/aliased and scratch-pool faults; plus Cmp/representation cross-invariant on every pair.",
   note=TRUST, tech="deterministic simulation of API histories with fault injection (corrupted payloads, failed parses, NaN panics, simulated sync.Pool faults); invariant checked after every step"),
 "C09": dict(cat="exploration", ref="DESIGN.md §4 C09",
   text="Per-step attribute model (precision sticky unless 0 and then the documented default; mode sticky except the documented copying operations) plus a whole-world memory monitor: the complete memory image of every variable except the receiver, and of every package-level variable, is compared at every statement boundary of every operation, so even transient modify-then-restore of an operand is caught.",
   note=TRUST, tech="deterministic simulation of API histories; statement-level yield hook used as a memory monitor (operand images at every statement boundary) + executable attribute model"),
 "C10": dict(cat="exploration", ref="DESIGN.md §4 C10",
   text="Shadow execution: every step of a live history (aliased receiver/operands, receiver carrying whatever buffer, stale words, value, sign and accuracy the history left, scratch pool handing out stale/garbage/poisoned buffers) is repeated on fresh, completely de-aliased memory with a clean pool; both must agree on value, sign, precision, mode, accuracy, return values and panics.",
   note=TRUST, tech="deterministic simulation of API histories with simulated sync.Pool faults; differential shadow execution on fresh memory (also from a cold start of the package-level state and on operands rebuilt from their observable value) as oracle"),
 "C19": dict(cat="exploration", ref="DESIGN.md §4 C19",
   text="The Context latch as a state machine under faults: NaN-producing operand classes and NewFloat64(NaN) at drawn positions, foreign panics (error value, string, real runtime.Error) injected at a drawn statement inside a context call, several faults per history; checked step by step against an executable model (pending error, no-op while latched, Err() returns the first error once and re-arms, foreign panics escape and do not latch, otherwise result == bare operation on a fresh receiver carrying the context's precision and mode, and == the exact result rounded once by an independent big-integer reference for Add Sub Mul Quo FMA Sqrt Set Neg Abs; whether an operation is invalid is decided by the IEEE operand-class model, not by the library).",
   note=TRUST, tech="deterministic simulation with fault injection: failpoint at every statement (injected panics), NaN faults; executable reference model of the context latch"),
})

claimed.update({
 "C12": dict(cat="exploration", ref="DESIGN.md §4 C12",
   text="Stream and corruption surface of the parsers: tokens (well-formed literals in all bases, mutated literals, arbitrary bytes) go through every entry point (Parse, SetString, ParseDecimal, UnmarshalText, UnmarshalJSON, fmt.Fscan/Fscanf/Sscan via Scan) over simulated io.Reader / io.RuneScanner streams with every chunking and with a read fault (EOF, error, io.ErrUnexpectedEOF, (1,err), zero-length read) at every offset of the token. Oracles: totality (no panic, nil on rejection), grammar == math/big Float.Parse, exact value rounded once by an independent rounder (base 10; <= 1 ulp otherwise), delivery independence, and under faults 'fails or returns exactly the value of the delivered bytes - never wrong data'.",
   note="Trusted: math/big's parser as grammar reference; the harness' own lexer and digit-string rounder (~250 lines, cross-checked against math/big on every in-range string); fmt's scanning machinery is real. Stubbed: io.Reader/io.RuneScanner. Sampling over tokens; fault offsets are enumerated per token.",
   tech="deterministic simulation of stream I/O with fault injection (EOF/error/short/zero reads at every offset, all chunkings) + reference model (math/big grammar, independent exact rounder)"),
 "C17": dict(cat="fault_enumeration", ref="DESIGN.md §4 C17",
   text="Encoder -> simulated byte transport -> decoder. Fault-free: exact round trip of value, sign, precision, mode, accuracy (zero-value receiver), precision/mode kept and value rounded once (preset receivers), through a real gob stream. Faults: systematic enumeration of every single corruption class over every byte/length of real encodings (truncation at every length, bit flips, byte sets, out-of-range mantissa words, all header/version byte values, precision field, extension, drop, duplication), seeded multi-fault sequences, and corrupted/reordered gob streams read through a faulty io.Reader. Oracle: error or canonical-and-usable value, never a panic, receiver canonical in every case.",
   note="Trusted: the canonical-form validator (public API only) and encoding/gob (real). Sampling over transmitted values; per value the named single-fault sub-spaces are enumerated completely. No claim about which value a corrupted payload decodes to.",
   tech="deterministic fault enumeration over a simulated byte transport (torn/flipped/extended/dropped/duplicated payloads, faulty io.Reader under a real gob.Decoder)"),
})

pending = {}  # filled below while checks are under construction

na = {
 "C01": "pure function of (x, y, precision, mode): no schedule, fault, history or stream for a simulator to search; input-space property (differential testing / proof territory)",
 "C02": "pure function of the same inputs as C01 (accuracy field of the result); nothing to simulate",
 "C03": "pure function of (x, y, u, precision, mode); its receiver-aliasing sentence is decided under C10",
 "C05": "pure function of (x, precision, mode); its 'precision and mode unchanged' sentence is decided under C09",
 "C06": "pure function x static tuning constants; thresholds are used as a swarm knob in every simulated world but exactness needs an arithmetic reference over inputs, not a simulation",
 "C07": "equivalence of two implementations of pure kernels over inputs and build tags (translation validation / differential testing), no nondeterminism to control",
 "C11": "composition of two pure functions (Text then Parse)",
 "C13": "pure function; fmt.State writes go to fmt's in-memory buffer and cannot fail, so there is no writer fault surface",
 "C14": "pure functions of their argument",
 "C15": "pure functions of their argument",
 "C16": "pure function of two values",
 "C20": "pure functions; SetBitsExp/BitsExp still appear, within contract, as steps of the C08/C10 histories",
}

def main():
    for k, v in pending.items():
        na[k] = v
    checks = []
    for pid in sorted(claimed):
        c = claimed[pid]
        checks.append({
            "property_id": pid,
            "quick_cmd": f"bin/vcheck -p {pid} -tier quick",
            "thorough_cmd": f"bin/vcheck -p {pid} -tier thorough",
            "evidence_file": f"/verif/evidence/{pid}.json",
            "replay_cmd_template": "bin/vcheck -replay {path}",
            "engine": "simworld",
            "level_claimed": {"category": c["cat"], "text": c["text"], "design_ref": c["ref"]},
            "level_note": c["note"],
            "technique": c["tech"],
        })
    m = {
        "version": 1,
        "setup_cmd": "cd /verif && GOFLAGS=-mod=mod GOPROXY=off GOSUMDB=off GOTOOLCHAIN=local go build -o bin/vcheck ./cmd/vcheck",
        "hooks": {
            "guard": "verif",
            "enable": "no hook is committed to /repo: every check copies /repo's working tree to a scratch directory, inserts verifrt.Yield(site) before every statement, redirects sync.Pool Get/Put to the simulated pool, adds a generated overlay file (//go:build verif) and builds the worker with -tags verif against that copy",
            "baseline_off_cmd": BASE_OFF,
            "source_commits": [],
            "add_only": True,
        },
        "engines": [{
            "name": "simworld", "path": "/verif/cmd/vcheck, /verif/harness, /verif/rt/verifrt, /verif/internal/instrument",
            "serves_properties": sorted(claimed),
            "kind_free_text": "deterministic simulation with fault injection: source-instrumented scratch copy, seeded cooperative scheduler, simulated sync.Pool / byte transport / stream reader, scenario = replay file, ddmin shrinking, fresh-process replay",
        }],
        "checks": checks,
        "not_applicable": [{"property_id": k, "reason": na[k]} for k in sorted(na)],
        "notes": "See DESIGN.md. Exit 2 = infrastructure trouble (never a VIOLATION). known_findings.json lists recorded/fixed defects.",
    }
    json.dump(m, open("/verif/MANIFEST.json", "w"), indent=1)
    print("MANIFEST.json written:", len(checks), "checks,", len(na), "not applicable")

pending.update({
 "C04": "check under construction in this session (planned: claimed, see DESIGN.md §4)",
 "C08": "check under construction in this session (planned: claimed, see DESIGN.md §4)",
 "C09": "check under construction in this session (planned: claimed, see DESIGN.md §4)",
 "C10": "check under construction in this session (planned: claimed, see DESIGN.md §4)",
 "C12": "check under construction in this session (planned: claimed, see DESIGN.md §4)",
 "C17": "check under construction in this session (planned: claimed, see DESIGN.md §4)",
 "C19": "check under construction in this session (planned: claimed, see DESIGN.md §4)",
})
for k in list(pending):
    if k in claimed:
        del pending[k]
main()

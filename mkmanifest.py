#!/usr/bin/env python3
"""Regenerates MANIFEST.json from the tables below (keeps it schema-valid)."""
import json, sys

BASE_OFF = "cd /repo && GOFLAGS=-mod=mod GOPROXY=off GOSUMDB=off GOTOOLCHAIN=local go test -json -vet=off -count=1 -timeout 25m ./..."

claimed = {
 "C18": dict(cat="exploration", ref="DESIGN.md §4 C18",
   text="Seeded search over interleavings of 2-5 simulated caller goroutines sharing read-only operands, with a simulated sync.Pool (stale/garbage/poisoned/emptied buffers) and lowered tuning knobs; memory monitors at every statement boundary show no operand, no foreign receiver and no package-level variable is written, pool ownership discipline shows scratch buffers are written only by their holder, and every result equals the sequential one. Sampling, not proof.",
   note="Trusted: the instrumenter (yield insertion is add-only and keeps the library's semantics), the token-passing scheduler, Go's memory model for channel hand-off. Stubbed: real sync.Pool, Go scheduler, true parallelism (sub-statement torn reads are unreachable). Arithmetic correctness of one sequential execution is assumed.",
   tech="deterministic simulation: seeded cooperative scheduler over statement-level yield points + simulated sync.Pool with fault injection; sequential-equivalence oracle and memory monitors"),
}

pending = {}  # filled below while checks are under construction

na = {
 "C01": "pure function of (x, y, precision, mode): no schedule, fault, history or stream for a simulator to search; input-space property (differential testing / proof territory)",
 "C02": "pure function of the same inputs as C01 (accuracy field of the result); nothing to simulate",
 "C03": "pure function of (x, y, u, precision, mode); its receiver-aliasing sentence is decided under C10",
 "C05": "pure function of (x, precision, mode); its 'precision and mode unchanged' sentence is decided under C09",
 "C06": "pure function x static tuning constants; thresholds are used as a swarm knob in every simulated world but exactness needs an arithmetic reference over inputs, not a simulation",
 "C07": "equivalence of two implementations of pure kernels over inputs and build tags (translation validation / differential testing), no nondeterminism to control",
 "C11": "composition of two pure functions (Text then Parse)",
 "C13": "pure function; fmt.State writes go to fmt's in-memory buffer and cannot fail, so there is no writer fault surface",
 "C14": "pure functions of their argument",
 "C15": "pure functions of their argument",
 "C16": "pure function of two values",
 "C20": "pure functions; SetBitsExp/BitsExp still appear, within contract, as steps of the C08/C10 histories",
}

def main():
    for k, v in pending.items():
        na[k] = v
    checks = []
    for pid in sorted(claimed):
        c = claimed[pid]
        checks.append({
            "property_id": pid,
            "quick_cmd": f"bin/vcheck -p {pid} -tier quick",
            "thorough_cmd": f"bin/vcheck -p {pid} -tier thorough",
            "evidence_file": f"/verif/evidence/{pid}.json",
            "replay_cmd_template": "bin/vcheck -replay {path}",
            "engine": "simworld",
            "level_claimed": {"category": c["cat"], "text": c["text"], "design_ref": c["ref"]},
            "level_note": c["note"],
            "technique": c["tech"],
        })
    m = {
        "version": 1,
        "setup_cmd": "cd /verif && GOFLAGS=-mod=mod GOPROXY=off GOSUMDB=off GOTOOLCHAIN=local go build -o bin/vcheck ./cmd/vcheck",
        "hooks": {
            "guard": "verif",
            "enable": "no hook is committed to /repo: every check copies /repo's working tree to a scratch directory, inserts verifrt.Yield(site) before every statement, redirects sync.Pool Get/Put to the simulated pool, adds a generated overlay file (//go:build verif) and builds the worker with -tags verif against that copy",
            "baseline_off_cmd": BASE_OFF,
            "source_commits": [],
            "add_only": True,
        },
        "engines": [{
            "name": "simworld", "path": "/verif/cmd/vcheck, /verif/harness, /verif/rt/verifrt, /verif/internal/instrument",
            "serves_properties": sorted(claimed),
            "kind_free_text": "deterministic simulation with fault injection: source-instrumented scratch copy, seeded cooperative scheduler, simulated sync.Pool / byte transport / stream reader, scenario = replay file, ddmin shrinking, fresh-process replay",
        }],
        "checks": checks,
        "not_applicable": [{"property_id": k, "reason": na[k]} for k in sorted(na)],
        "notes": "See DESIGN.md. Exit 2 = infrastructure trouble (never a VIOLATION). known_findings.json lists recorded/fixed defects.",
    }
    json.dump(m, open("/verif/MANIFEST.json", "w"), indent=1)
    print("MANIFEST.json written:", len(checks), "checks,", len(na), "not applicable")

pending.update({
 "C04": "check under construction in this session (planned: claimed, see DESIGN.md §4)",
 "C08": "check under construction in this session (planned: claimed, see DESIGN.md §4)",
 "C09": "check under construction in this session (planned: claimed, see DESIGN.md §4)",
 "C10": "check under construction in this session (planned: claimed, see DESIGN.md §4)",
 "C12": "check under construction in this session (planned: claimed, see DESIGN.md §4)",
 "C17": "check under construction in this session (planned: claimed, see DESIGN.md §4)",
 "C19": "check under construction in this session (planned: claimed, see DESIGN.md §4)",
})
for k in list(pending):
    if k in claimed:
        del pending[k]
main()

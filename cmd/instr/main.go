// Command instr instruments a copy of the repository (debug helper; vcheck
// does the same internally).
package main

import (
	"encoding/json"
	"fmt"
	"os"

	"verif/internal/instrument"
)

func main() {
	if len(os.Args) != 4 {
		fmt.Fprintln(os.Stderr, "usage: instr <repo> <outdir> <verifrt-dir>")
		os.Exit(2)
	}
	info, err := instrument.Run(os.Args[1], os.Args[2], os.Args[3])
	if err != nil {
		fmt.Fprintln(os.Stderr, "instrument:", err)
		os.Exit(2)
	}
	info.Sites = nil
	b, _ := json.MarshalIndent(info, "", " ")
	fmt.Println(string(b))
}

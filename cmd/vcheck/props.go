package main

import "time"

func init() {
	common := []string{
		"sampling: a clean batch is evidence, not proof",
		"the real sync.Pool implementation, the Go scheduler and true parallel execution are stubbed; effects that need sub-statement parallelism (torn reads) are out of reach",
		"oracles compare the instrumented library with itself under a different schedule/memory situation; arithmetic correctness of a single sequential execution is assumed (C01-C06 are not claimed)",
	}
	props["C18"] = &propCfg{
		level:    "exploration",
		quick:    tierCfg{runs: 6000, budget: 55 * time.Second},
		thorough: tierCfg{runs: 4000000, budget: 15 * time.Minute},
		rule: "one scenario per seed: 2-6 shared operands, 2-5 tasks x 1-6 operations writing private receivers, swarm-drawn op menu, knob assignment, pool policy and pool faults; preemption plan (PCT / random walk / pool-window targeted) derived from the seed and the measured sequential yield counts. " +
			"Non-trivial = at least one planned preemption actually fired in the concurrent run; distinct = distinct scenario digest (sha256 of the scenario JSON).",
		assume: common,
	}
}

package main

import "time"

func init() {
	common := []string{
		"sampling: a clean batch is evidence, not proof",
		"the real sync.Pool implementation, the Go scheduler and true parallel execution are stubbed; effects that need sub-statement parallelism (torn reads) are out of reach",
		"oracles compare the instrumented library with itself under a different schedule/memory situation; arithmetic correctness of a single sequential execution is assumed (C01-C06 are not claimed)",
	}
	props["C18"] = &propCfg{
		level:    "exploration",
		quick:    tierCfg{runs: 6000, budget: 55 * time.Second},
		thorough: tierCfg{runs: 4000000, budget: 15 * time.Minute},
		rule: "one scenario per seed: 2-6 shared operands, 2-5 tasks x 1-6 operations writing private receivers, swarm-drawn op menu, knob assignment, pool policy and pool faults; preemption plan (PCT / random walk / pool-window targeted) derived from the seed and the measured sequential yield counts. " +
			"Non-trivial = at least one planned preemption actually fired in the concurrent run; distinct = distinct scenario digest (sha256 of the scenario JSON).",
		assume: common,
	}
	histRule := "one scenario per seed: a history of 3-14 (thorough: up to 40) public-API calls by one task over 3-6 variables, receivers reused and aliased on purpose (z=x, z=y, x=y, all equal), swarm-drawn op groups (arithmetic, copy/attribute setters, integer/float/raw setters, text parsing, gob), NaN-producing fault events, corrupted gob payloads, malformed literals, pool faults (stale/garbage/poisoned/emptied scratch) and lowered tuning knobs. Non-trivial = at least one operation executed under the oracle; distinct = distinct scenario digest."
	props["C08"] = &propCfg{level: "exploration", quick: tierCfg{runs: 40000, budget: 50 * time.Second}, thorough: tierCfg{runs: 20000000, budget: 12 * time.Minute},
		rule: histRule + " Oracle: canonical-form invariant through the public API on every variable after every step (also after recovered panics and reported failures), Cmp/representation cross-invariant on every pair, SetPrec(MinPrec) exact on the receiver.", assume: common}
	props["C09"] = &propCfg{level: "exploration", quick: tierCfg{runs: 30000, budget: 50 * time.Second}, thorough: tierCfg{runs: 20000000, budget: 12 * time.Minute},
		rule: histRule + " Oracle A: attribute model (precision sticky unless 0, documented default otherwise; mode sticky except Copy/SetMantExp/MantExp/GobDecode-into-zero-precision). Oracle B: complete memory image (struct + mantissa up to capacity) of every variable except the receiver, and of every package-level variable, compared at every statement boundary of the running operation.", assume: common}
	props["C10"] = &propCfg{level: "exploration", quick: tierCfg{runs: 30000, budget: 50 * time.Second}, thorough: tierCfg{runs: 20000000, budget: 12 * time.Minute},
		rule: histRule + " Oracle: shadow execution - every step is repeated on fresh memory (deep copies of the operands taken before the live call, completely de-aliased, a zero receiver carrying only precision and mode, a clean pool) and must agree with the live, aliased, history-laden, pool-faulted call on value, sign, precision, mode, accuracy, return values and panic.", assume: common}
	props["C19"] = &propCfg{level: "exploration", quick: tierCfg{runs: 40000, budget: 50 * time.Second}, thorough: tierCfg{runs: 20000000, budget: 12 * time.Minute},
		rule:   "one scenario per seed: a context.Context (drawn precision/mode) and 3-6 variables; history of 3-25 calls from {Add Sub Mul Quo FMA Sqrt Neg Abs Set Err SetPrec SetMode New*} with receivers distinct from operands and pre-loaded with arbitrary precision/mode/value; NaN faults through special-valued operands and NewFloat64(NaN); foreign panics (error value, string, runtime.Error) injected at a drawn yield inside a context call (positions from a fault-free dry run); pool faults and lowered knobs. Oracle: executable latch model (prec, mode, pending error) + bare operation on a fresh receiver carrying the context's attributes. Non-trivial = at least one operation executed; distinct = distinct scenario digest.",
		assume: append([]string{"correct rounding of the bare decimal operation is assumed (C01-C05 are not claimed): the model checks that the Context layer adds exactly 'apply the context's attributes, latch ErrNaN'"}, common...)}
	props["C04"] = &propCfg{level: "exploration", quick: tierCfg{runs: 30000, budget: 50 * time.Second}, thorough: tierCfg{runs: 20000000, budget: 12 * time.Minute},
		rule: histRule + " Oracle: operand-class model (invalid <=> ErrNaN panic; receiver valid afterwards; results fixed by the operand classes; XOR sign of products/quotients; sign of exactly-zero sums); any other panic value on valid arguments is a violation. The first three seeds of every run are the exhaustive operand-class sweep (6^2 x 4 ops, 6^3 FMA, 6 Sqrt, x 6 modes, 3 magnitude variants) - plain enumeration, fault-free.", assume: common}
}

// Command vcheck is the orchestrator of the deterministic-simulation checks:
// instrument a scratch copy of /repo's working tree, build the worker against
// it, fan seeds out to worker processes, merge what they report, replay every
// violation in a fresh process, write evidence/<id>.json.
//
// Exit status: 0 property held on everything explored; 1 violation (a line
// "VIOLATION property=<id> replay=<path>" is printed); 2 infrastructure trouble
// (build failure, watchdog, non-reproducible failure) - never a VIOLATION.
package main

import (
	"bytes"
	"encoding/json"
	"flag"
	"fmt"
	"io"
	"os"
	"os/exec"
	"os/signal"
	"path/filepath"
	"runtime"
	"sort"
	"strconv"
	"strings"
	"sync"
	"syscall"
	"time"

	"verif/internal/instrument"
)

var (
	procMu sync.Mutex
	procs  []*exec.Cmd

	maxViol     = 3
	shrinkLimit = 60 * time.Second
)

type tierCfg struct {
	runs   int           // total scenarios (upper bound)
	budget time.Duration // wall-clock budget for the exploration phase
}

type propCfg struct {
	level      string
	quick      tierCfg
	thorough   tierCfg
	rule       string
	assume     []string
	components map[string][]string
}

var real = []string{"package decimal (Go and amd64 assembly, instrumented with yield points only)", "package decimal/context", "math/big", "fmt scanning/printing", "encoding/gob", "encoding/json"}
var stub = []string{"sync.Pool (simulated pool owned by the scheduler)", "goroutine scheduling (token passing over real goroutines, seeded plans)", "io.Reader / io.RuneScanner / byte transport (simulated, fault-injecting)"}

var props = map[string]*propCfg{}

func verifDir() string {
	if d := os.Getenv("VERIF_DIR"); d != "" {
		return d
	}
	exe, err := os.Executable()
	if err == nil {
		d := filepath.Dir(filepath.Dir(exe))
		if _, err := os.Stat(filepath.Join(d, "MANIFEST.json")); err == nil {
			return d
		}
		if _, err := os.Stat(filepath.Join(d, "harness")); err == nil {
			return d
		}
	}
	wd, _ := os.Getwd()
	return wd
}

func goEnv() []string {
	env := os.Environ()
	env = append(env, "GOFLAGS=-mod=mod", "GOPROXY=off", "GOSUMDB=off", "GOTOOLCHAIN=local", "CGO_ENABLED=0")
	return env
}

func die(code int, f string, a ...interface{}) {
	fmt.Fprintf(os.Stderr, "vcheck: "+f+"\n", a...)
	os.Exit(code)
}

func copyFile(dst, src string) error {
	b, err := os.ReadFile(src)
	if err != nil {
		return err
	}
	return os.WriteFile(dst, b, 0o644)
}

// prepare builds the instrumented worker in a fresh scratch directory.
func prepare(vdir, repo string) (scratch string, info *instrument.Info, err error) {
	scratch, err = os.MkdirTemp("", "verif-scratch-")
	if err != nil {
		return "", nil, err
	}
	dec := filepath.Join(scratch, "decimal")
	if err = os.MkdirAll(dec, 0o755); err != nil {
		return
	}
	info, err = instrument.Run(repo, dec, filepath.Join(vdir, "rt", "verifrt"))
	if err != nil {
		return
	}
	h := filepath.Join(scratch, "harness")
	if err = os.MkdirAll(h, 0o755); err != nil {
		return
	}
	ents, err := os.ReadDir(filepath.Join(vdir, "harness"))
	if err != nil {
		return
	}
	for _, e := range ents {
		if strings.HasSuffix(e.Name(), ".go") && !strings.HasSuffix(e.Name(), "_test.go") {
			if err = copyFile(filepath.Join(h, e.Name()), filepath.Join(vdir, "harness", e.Name())); err != nil {
				return
			}
		}
	}
	gomod := fmt.Sprintf("module harness\n\ngo 1.22\n\nrequire %s v0.0.0\n\nreplace %s => ../decimal\n", info.Module, info.Module)
	if err = os.WriteFile(filepath.Join(h, "go.mod"), []byte(gomod), 0o644); err != nil {
		return
	}
	cmd := exec.Command("go", "build", "-tags", "verif", "-trimpath", "-o", filepath.Join(scratch, "worker"), ".")
	cmd.Dir = h
	cmd.Env = goEnv()
	var ob bytes.Buffer
	cmd.Stdout, cmd.Stderr = &ob, &ob
	if e := cmd.Run(); e != nil {
		err = fmt.Errorf("build of instrumented worker failed: %v\n%s", e, ob.String())
	}
	return
}

type summary struct {
	Property   string                 `json:"property"`
	Worker     int                    `json:"worker"`
	Runs       int                    `json:"runs"`
	Nontrivial int                    `json:"nontrivial"`
	Scenarios  int                    `json:"scenarios"`
	Keys       []uint64               `json:"keys"`
	KeyCount   int                    `json:"key_count"`
	Schedules  []uint64               `json:"schedules"`
	Steps      uint64                 `json:"steps"`
	Ops        int                    `json:"ops"`
	Counters   map[string]int         `json:"counters"`
	SiteHits   []uint32               `json:"site_hits"`
	SitePre    []uint32               `json:"site_preempted"`
	Samples    []json.RawMessage      `json:"samples"`
	Violations []violation            `json:"violations"`
	KnownSeen  map[string]int         `json:"known_seen"`
	Infra      []string               `json:"infra"`
	WallS      float64                `json:"wall_s"`
	TraceLog   []string               `json:"trace_log"`
	Extra      map[string]interface{} `json:"extra"`
}

type violation struct {
	Rec    json.RawMessage `json:"rec"`
	Replay string          `json:"replay"`
	Seed   uint64          `json:"seed"`
	Seed0  uint64          `json:"seed0"`
	Stride uint64          `json:"stride"`
	Tier   string          `json:"tier"`
}

// seqReplay is the replay file for a violation that depends on state left in
// the process by earlier scenarios (package-level state of the library): the
// deterministic seed sequence seed0..stop_seed re-executed in one fresh process.
type seqReplay struct {
	Kind     string `json:"kind"` // "sequence"
	Property string `json:"property"`
	Tier     string `json:"tier"`
	Seed0    uint64 `json:"seed0"`
	Stride   uint64 `json:"stride"`
	StopSeed uint64 `json:"stop_seed"`
	Class    string `json:"class"`
	Note     string `json:"note"`
}

func runSeq(worker, sites, known string, r *seqReplay, w io.Writer) int {
	n := (r.StopSeed-r.Seed0)/r.Stride + 1
	cmd := exec.Command(worker, "-p", r.Property, "-tier", r.Tier, "-seed0", strconv.FormatUint(r.Seed0, 10), "-stride", strconv.FormatUint(r.Stride, 10),
		"-runs", strconv.FormatUint(n, 10), "-stopseed", strconv.FormatUint(r.StopSeed, 10), "-stopclass", r.Class, "-sites", sites, "-known", known)
	cmd.Stdout, cmd.Stderr = w, w
	err := cmd.Run()
	if err == nil {
		return 0
	}
	if ee, ok := err.(*exec.ExitError); ok {
		return ee.ExitCode()
	}
	return 2
}

func main() {
	prop := flag.String("p", "", "property id (C04, C08, ...)")
	tier := flag.String("tier", os.Getenv("VERIF_TIER"), "quick|thorough")
	replay := flag.String("replay", "", "replay a scenario file against the current tree")
	nworkers := flag.Int("workers", 0, "worker processes (default min(16, NumCPU))")
	runsFlag := flag.Int("runs", 0, "override total scenarios")
	budgetFlag := flag.Duration("budget", 0, "override exploration budget")
	repo := flag.String("repo", "/repo", "repository working tree")
	keep := flag.Bool("keep", false, "keep the scratch directory")
	selftest := flag.Bool("selftest", false, "determinism self-test instead of a check")
	noEvidence := flag.Bool("no-evidence", false, "do not write the evidence file")
	covOut := flag.String("sitehits", "", "debug: write 'site hits' lines to this file")
	flag.IntVar(&maxViol, "maxviol", 3, "violations shrunk and reported per worker")
	flag.DurationVar(&shrinkLimit, "shrink", 60*time.Second, "time limit for minimising one violation")
	flag.Parse()
	if *tier == "" {
		*tier = "quick"
	}
	vdir := verifDir()
	if *nworkers <= 0 {
		*nworkers = runtime.NumCPU()
		if *nworkers > 16 {
			*nworkers = 16
		}
	}
	seed := uint64(1)
	if s := os.Getenv("VERIF_SEED"); s != "" {
		if v, err := strconv.ParseInt(s, 10, 64); err == nil {
			seed = uint64(v)
		}
	}
	start := time.Now()

	scratch, info, err := prepare(vdir, *repo)
	cleanup := func() {
		if scratch != "" && !*keep {
			os.RemoveAll(scratch)
		}
	}
	// remove the scratch copy also when the check is interrupted
	sigc := make(chan os.Signal, 1)
	signal.Notify(sigc, os.Interrupt, syscall.SIGTERM)
	go func() {
		<-sigc
		procMu.Lock()
		for _, c := range procs {
			if c.Process != nil {
				_ = c.Process.Kill()
			}
		}
		procMu.Unlock()
		cleanup()
		os.Exit(2)
	}()
	if err != nil {
		cleanup()
		die(2, "%v", err)
	}
	if *keep {
		fmt.Fprintln(os.Stderr, "vcheck: scratch kept at", scratch)
	}
	worker := filepath.Join(scratch, "worker")
	sites := filepath.Join(scratch, "decimal", "verif_sites.json")
	known := filepath.Join(vdir, "known_findings.json")

	if *replay != "" {
		if b, err := os.ReadFile(*replay); err == nil {
			var sr seqReplay
			if json.Unmarshal(b, &sr) == nil && sr.Kind == "sequence" {
				code := runSeq(worker, sites, known, &sr, os.Stdout)
				if code == 1 {
					fmt.Printf("VIOLATION property=%s replay=%s\n", sr.Property, *replay)
				}
				cleanup()
				os.Exit(code)
			}
		}
		code := runReplay(worker, sites, known, *replay, os.Stdout)
		if code == 1 {
			b, _ := os.ReadFile(*replay)
			var sc struct {
				Property string `json:"property"`
			}
			_ = json.Unmarshal(b, &sc)
			fmt.Printf("VIOLATION property=%s replay=%s\n", sc.Property, *replay)
		}
		cleanup()
		os.Exit(code)
	}

	pc, ok := props[*prop]
	if !ok {
		cleanup()
		die(2, "unknown property %q", *prop)
	}
	tc := pc.quick
	if *tier == "thorough" {
		tc = pc.thorough
	}
	if *runsFlag > 0 {
		tc.runs = *runsFlag
	}
	if *budgetFlag > 0 {
		tc.budget = *budgetFlag
	}

	if *selftest {
		code := selfTest(worker, sites, *prop, seed, *nworkers)
		cleanup()
		os.Exit(code)
	}

	replayDir := filepath.Join(vdir, "replays")
	sums, werr := runWorkers(worker, sites, known, replayDir, *prop, *tier, seed, tc, *nworkers, false, 2)
	if werr != nil {
		cleanup()
		die(2, "%v", werr)
	}

	// ---- merge ----
	total := &summary{Counters: map[string]int{}, KnownSeen: map[string]int{}, Extra: map[string]interface{}{}}
	digests := map[uint64]bool{}
	overflow := 0
	scheds := map[uint64]bool{}
	var viol []violation
	for _, s := range sums {
		total.Runs += s.Runs
		total.Steps += s.Steps
		total.Ops += s.Ops
		for k, v := range s.Counters {
			total.Counters[k] += v
		}
		for k, v := range s.KnownSeen {
			total.KnownSeen[k] += v
		}
		total.Scenarios += s.Scenarios
		if len(s.Keys) == 0 && s.KeyCount > 0 {
			overflow += s.KeyCount // too many to ship: counted per worker (workers explore disjoint seed ranges)
		}
		for _, d := range s.Keys {
			digests[d] = true
		}
		for _, d := range s.Schedules {
			scheds[d] = true
		}
		if len(total.Samples) < 4 {
			total.Samples = append(total.Samples, s.Samples...)
		}
		total.Infra = append(total.Infra, s.Infra...)
		viol = append(viol, s.Violations...)
		if len(s.SiteHits) > len(total.SiteHits) {
			total.SiteHits = append(total.SiteHits, make([]uint32, len(s.SiteHits)-len(total.SiteHits))...)
			total.SitePre = append(total.SitePre, make([]uint32, len(s.SitePre)-len(total.SitePre))...)
		}
		for i, h := range s.SiteHits {
			total.SiteHits[i] += h
		}
		for i, h := range s.SitePre {
			total.SitePre[i] += h
		}
		for k, v := range s.Extra {
			mergeExtra(total.Extra, k, v)
		}
	}
	if len(total.Samples) > 4 {
		total.Samples = total.Samples[:4]
	}
	exploreWall := time.Since(start).Seconds()

	// ---- violations: replay each in a fresh process ----
	exit := 0
	confirmed := 0
	seenReplay := map[string]bool{}
	for _, v := range viol {
		if seenReplay[v.Replay] {
			continue
		}
		seenReplay[v.Replay] = true
		var ob bytes.Buffer
		code := runReplay(worker, sites, known, v.Replay, &ob)
		if code == 1 {
			confirmed++
			fmt.Printf("VIOLATION property=%s replay=%s\n", *prop, v.Replay)
			fmt.Print(indent(ob.String()))
			exit = 1
		} else {
			// Not reproducible alone: it may depend on state left in the worker process
			// by earlier scenarios (a package-level cache in the library). Re-execute
			// growing suffixes of the worker's deterministic seed sequence.
			var rec struct {
				Class string `json:"class"`
			}
			_ = json.Unmarshal(v.Rec, &rec)
			done := false
			if v.Stride > 0 && v.Seed >= v.Seed0 {
				total := (v.Seed - v.Seed0) / v.Stride
				// l = 0 first: the scenario as the worker generated and prepared it (the
				// replay file holds the minimised one, which was minimised in a process
				// with a history)
				for l := uint64(0); !done; l = l*4 + 1 {
					if l > total {
						l = total
					}
					sr := &seqReplay{Kind: "sequence", Property: *prop, Tier: v.Tier, Seed0: v.Seed - l*v.Stride, Stride: v.Stride, StopSeed: v.Seed, Class: rec.Class,
						Note: "the violation needs the state left in the process by the preceding scenarios (package-level state of the library); replay re-executes this seed sequence in one fresh process"}
					var sb bytes.Buffer
					if runSeq(worker, sites, known, sr, &sb) == 1 {
						path := strings.TrimSuffix(v.Replay, ".json") + "-seq.json"
						jb, _ := json.MarshalIndent(sr, "", " ")
						_ = os.WriteFile(path, jb, 0o644)
						confirmed++
						fmt.Printf("VIOLATION property=%s replay=%s\n", *prop, path)
						fmt.Print(indent(sb.String()))
						exit = 1
						done = true
					}
					if l == total {
						break
					}
				}
			}
			if !done {
				fmt.Fprintf(os.Stderr, "vcheck: violation found by seed %d did not reproduce in a fresh process (exit %d), neither alone nor after the worker's preceding scenarios: simulator bug\n%s\n%s\n", v.Seed, code, string(v.Rec), ob.String())
				if exit == 0 {
					exit = 2
				}
			}
		}
	}
	var knownLines []string
	for k := range total.KnownSeen {
		knownLines = append(knownLines, k)
	}
	sort.Strings(knownLines)
	for _, k := range knownLines {
		fmt.Printf("KNOWN-FINDING: property=%s %s (seen %d times)\n", *prop, k, total.KnownSeen[k])
	}
	// A scenario that exhausts its step budget is not a property violation (no
	// listed property is a liveness claim) and, when rare, not an infrastructure
	// failure either: it is counted and reported. More than a handful means the
	// library hangs or the generators are mis-tuned: exit 2.
	var hard []string
	wd := 0
	for _, m := range total.Infra {
		if strings.Contains(m, "watchdog") {
			wd++
		} else {
			hard = append(hard, m)
		}
	}
	total.Counters["scenarios_aborted_by_step_budget"] = wd
	if wd > 0 && wd <= 3 && float64(wd) <= 1e-4*float64(total.Scenarios) {
		fmt.Fprintf(os.Stderr, "vcheck: note: %d scenario(s) exceeded the step budget and were abandoned: %s\n", wd, strings.Join(total.Infra, "; "))
		total.Infra = hard
	}
	if len(total.Infra) > 0 && exit == 0 {
		fmt.Fprintf(os.Stderr, "vcheck: infrastructure trouble: %s\n", strings.Join(total.Infra, "; "))
		exit = 2
	}
	if total.Runs == 0 && exit == 0 {
		fmt.Fprintln(os.Stderr, "vcheck: no scenario was executed")
		exit = 2
	}

	// ---- evidence ----
	wall := time.Since(start).Seconds()
	if !*noEvidence {
		cov := map[string]interface{}{
			"evaluations":              total.Runs,
			"distinct_nontrivial":      len(digests) + overflow,
			"distinct_nontrivial_note": "exact up to 3,000,000 distinct cases per worker; cases explored beyond that bound are not added (counters.cases_beyond_distinctness_bound), so the figure is a lower bound in long runs",
			"scenarios":                total.Scenarios,
			"rule":                     pc.rule,
			"samples":                  total.Samples,
			"logical_steps_total":      total.Steps,
			"operations_executed":      total.Ops,
			"counters":                 total.Counters,
			"distinct_schedules":       len(scheds),
			"runs_per_hour":            int(float64(total.Runs) / exploreWall * 3600),
			"seeds_per_hour":           int(float64(total.Runs) / exploreWall * 3600),
			"simulated_time":           "none: no code under test reads a clock; logical_steps_total (yields executed) is the time measure",
			"seed_range":               fmt.Sprintf("VERIF_SEED=%d -> scenario seeds %d.. (one scenario per seed, %d workers)", seed, seed<<24, *nworkers),
			"components":               map[string][]string{"real": real, "stub": stub},
			"known_findings_seen":      total.KnownSeen,
			"instrumentation": map[string]interface{}{
				"yield_sites": len(info.Sites), "pool_get_sites": info.PoolGets, "pool_put_sites": info.PoolPuts,
				"knobs": info.Knobs, "globals_monitored": info.Globals, "globals_unmonitored": info.Unmonitored, "notes": info.Notes,
			},
		}
		hit, pre := 0, 0
		for _, h := range total.SiteHits {
			if h > 0 {
				hit++
			}
		}
		for _, h := range total.SitePre {
			if h > 0 {
				pre++
			}
		}
		if *covOut != "" {
			var hb strings.Builder
			for i, h := range total.SiteHits {
				if i > 0 {
					fmt.Fprintf(&hb, "%d %d\n", i, h)
				}
			}
			_ = os.WriteFile(*covOut, []byte(hb.String()), 0o644)
		}
		cov["yield_sites_covered"] = hit
		cov["yield_sites_preempted_at_least_once"] = pre
		for k, v := range total.Extra {
			cov[k] = v
		}
		ev := map[string]interface{}{
			"property_id": *prop,
			"tier":        *tier,
			"seed":        int64(seed),
			"level":       pc.level,
			"coverage":    cov,
			"assumptions": pc.assume,
			"wall_s":      wall,
			"violations":  confirmed,
		}
		b, _ := json.MarshalIndent(ev, "", " ")
		_ = os.MkdirAll(filepath.Join(vdir, "evidence"), 0o755)
		if err := os.WriteFile(filepath.Join(vdir, "evidence", *prop+".json"), b, 0o644); err != nil {
			fmt.Fprintln(os.Stderr, "vcheck: cannot write evidence:", err)
			if exit == 0 {
				exit = 2
			}
		}
	}
	fmt.Printf("vcheck %s %s: %d scenarios (%d distinct non-trivial), %d logical steps, %d schedules, %.1fs, violations=%d known=%d exit=%d\n",
		*prop, *tier, total.Runs, len(digests)+overflow, total.Steps, len(scheds), wall, confirmed, len(total.KnownSeen), exit)
	cleanup()
	os.Exit(exit)
}

func mergeExtra(dst map[string]interface{}, k string, v interface{}) {
	switch x := v.(type) {
	case float64:
		if o, ok := dst[k].(float64); ok {
			dst[k] = o + x
		} else {
			dst[k] = x
		}
	case map[string]interface{}:
		m, ok := dst[k].(map[string]interface{})
		if !ok {
			m = map[string]interface{}{}
			dst[k] = m
		}
		for kk, vv := range x {
			mergeExtra(m, kk, vv)
		}
	default:
		if _, ok := dst[k]; !ok {
			dst[k] = v
		}
	}
}

func indent(s string) string {
	var b strings.Builder
	for _, l := range strings.Split(strings.TrimRight(s, "\n"), "\n") {
		b.WriteString("    " + l + "\n")
	}
	return b.String()
}

func runReplay(worker, sites, known, path string, w io.Writer) int {
	cmd := exec.Command(worker, "-replay", path, "-sites", sites, "-known", known)
	cmd.Stdout, cmd.Stderr = w, w
	err := cmd.Run()
	if err == nil {
		return 0
	}
	if ee, ok := err.(*exec.ExitError); ok {
		return ee.ExitCode()
	}
	return 2
}

// runWorkers fans the seed range out to n processes.
func runWorkers(worker, sites, known, replayDir, prop, tier string, seed uint64, tc tierCfg, n int, traceLog bool, gomaxprocs int) ([]*summary, error) {
	per := (tc.runs + n - 1) / n
	if per < 1 {
		per = 1
	}
	outDir, err := os.MkdirTemp(filepath.Dir(worker), "out-")
	if err != nil {
		return nil, err
	}
	sums := make([]*summary, n)
	errs := make([]error, n)
	var wg sync.WaitGroup
	for i := 0; i < n; i++ {
		wg.Add(1)
		go func(i int) {
			defer wg.Done()
			out := filepath.Join(outDir, fmt.Sprintf("w%d.json", i))
			args := []string{"-p", prop, "-tier", tier, "-worker", strconv.Itoa(i),
				"-seed0", strconv.FormatUint(seed<<24+uint64(i)*uint64(per), 10), "-runs", strconv.Itoa(per),
				"-budget", tc.budget.String(), "-maxviol", strconv.Itoa(maxViol), "-shrink", shrinkLimit.String(), "-out", out, "-sites", sites, "-known", known, "-replaydir", replayDir}
			if traceLog {
				args = append(args, "-tracelog")
			}
			cmd := exec.Command(worker, args...)
			cmd.Env = append(os.Environ(), "GOMAXPROCS="+strconv.Itoa(gomaxprocs))
			var eb bytes.Buffer
			cmd.Stderr = &eb
			cmd.Stdout = &eb
			done := make(chan error, 1)
			if err := cmd.Start(); err != nil {
				errs[i] = err
				return
			}
			procMu.Lock()
			procs = append(procs, cmd)
			procMu.Unlock()
			go func() { done <- cmd.Wait() }()
			limit := tc.budget*3 + 10*time.Minute
			select {
			case err := <-done:
				if err != nil {
					errs[i] = fmt.Errorf("worker %d: %v\n%s", i, err, tail(eb.String(), 4000))
					return
				}
			case <-time.After(limit):
				_ = cmd.Process.Kill()
				errs[i] = fmt.Errorf("worker %d exceeded the hard time limit %v (watchdog)", i, limit)
				return
			}
			b, err := os.ReadFile(out)
			if err != nil {
				errs[i] = fmt.Errorf("worker %d: %v\n%s", i, err, tail(eb.String(), 2000))
				return
			}
			var s summary
			if err := json.Unmarshal(b, &s); err != nil {
				errs[i] = fmt.Errorf("worker %d: bad summary: %v", i, err)
				return
			}
			sums[i] = &s
		}(i)
	}
	wg.Wait()
	os.RemoveAll(outDir)
	for _, e := range errs {
		if e != nil {
			return nil, e
		}
	}
	return sums, nil
}

func tail(s string, n int) string {
	if len(s) > n {
		return "…" + s[len(s)-n:]
	}
	return s
}

// selfTest proves determinism: the same seeds are executed in several fresh
// processes under different GOMAXPROCS and worker counts; the per-run trace
// hashes (every yield's (task, site), every pool decision) must be identical.
func selfTest(worker, sites, prop string, seed uint64, n int) int {
	tc := tierCfg{runs: 64, budget: 10 * time.Minute}
	var ref []string
	fail := 0
	configs := []struct{ workers, gmp int }{{1, 1}, {1, 4}, {1, 16}, {4, 1}, {4, 16}, {16, 2}}
	for ci, c := range configs {
		for rep := 0; rep < 2; rep++ {
			sums, err := runWorkers(worker, sites, "", os.TempDir(), prop, "quick", seed, tc, c.workers, true, c.gmp)
			if err != nil {
				fmt.Fprintln(os.Stderr, "selftest:", err)
				return 2
			}
			var log []string
			for _, s := range sums {
				log = append(log, s.TraceLog...)
			}
			sort.Strings(log)
			// different worker counts partition seeds differently: compare per-seed lines
			if ref == nil {
				ref = log
				continue
			}
			m := map[string]string{}
			for _, l := range ref {
				m[strings.SplitN(l, " ", 2)[0]] = l
			}
			for _, l := range log {
				k := strings.SplitN(l, " ", 2)[0]
				if r, ok := m[k]; ok && r != l {
					fmt.Printf("NONDETERMINISM config#%d rep%d: %q vs %q\n", ci, rep, r, l)
					fail++
				}
			}
		}
	}
	fmt.Printf("selftest %s: %d seeds x %d process configurations x 2, divergences=%d\n", prop, len(ref), len(configs), fail)
	if fail > 0 {
		return 2
	}
	return 0
}
